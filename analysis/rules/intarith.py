"""R20.2 / R08.3 / R14.4: overflow of narrow (<= 32 bit) integer arithmetic, by interval evaluation along CFG paths.

For every checked Add/Sub/Mul/Neg (MIR `Assert(Overflow…)`), `abs()` and `neg()` on a type of at most 32 bits
inside the cone, the operand ranges under the branch conditions of the path must keep the result inside the type.
Public-function parameters range over their whole type; private-function parameters over the join of their call
sites; `x & CONST` is bounded by CONST; lengths/counts cast to i32 are in [0, 2^31) (assumption A2)."""
from sym import Explorer, show, lin, subterms, INT_RANGES
from pat import called, canon, is_call, deref_all, strip_casts
from pathfacts import PathFacts, IntervalSet, INF
from mir import natural_loops

NARROW = ('i8', 'i16', 'i32', 'u8', 'u16', 'u32')
LEN_MAX = (1 << 29) - 1


class Ranger:
    def __init__(self, ctx):
        self.ctx = ctx
        self.param_cache = {}
        self.paths_cache = {}
        self.in_progress = set()

    def paths(self, body):
        if body.path not in self.paths_cache:
            ex = Explorer(body, max_paths=4000)
            out = []
            loops = natural_loops(body)
            starts = [0] + sorted(loops)
            for s in starts:
                out.extend(ex.explore(start=s, stop=set(loops)))
            self.paths_cache[body.path] = (out, ex.capped)
        return self.paths_cache[body.path]

    def local_ty(self, body, l):
        return body.local_ty(l).get('s')

    def term_range(self, body, t, pf, ty=None, depth=0):
        """Sound interval for an integer term under path facts pf."""
        tyr = IntervalSet.of_type(ty) if ty in INT_RANGES else IntervalSet()
        if depth > 12:
            return tyr
        k = t[0]
        r = None
        if k == 'const' and isinstance(t[1], int) and not isinstance(t[1], bool):
            return IntervalSet([(t[1], t[1])])
        if k == 'cast' and t[1] == 'IntToInt':
            inner = self.term_range(body, t[2], pf, None, depth + 1)
            to = IntervalSet.of_type(t[3])
            src = t[2]
            # a length / count cast to a signed 32-bit type (assumption A2)
            if t[3] in ('i32', 'i64') and self.is_length(src):
                inner = inner.intersect(IntervalSet([(0, LEN_MAX)]))
            r = inner if (not inner.empty() and inner.subset_of(to)) else to
        elif k == 'bin' and t[1] == 'BitAnd':
            for a in (t[2], t[3]):
                if a[0] == 'const' and isinstance(a[1], int) and a[1] >= 0:
                    r = IntervalSet([(0, a[1])])
        elif k == 'bin' and t[1] in ('Shl', 'Shr') and t[3][0] == 'const' and isinstance(t[3][1], int):
            a = self.term_range(body, t[2], pf, ty, depth + 1)
            sh = t[3][1]
            if not a.empty() and a.lo() >= 0 and a.hi() != INF:
                if t[1] == 'Shr':
                    r = IntervalSet([(a.lo() >> sh, a.hi() >> sh)])
                else:
                    mx = tyr.hi() if ty in INT_RANGES else None
                    if mx is not None and (a.hi() << sh) > mx:
                        r = IntervalSet([(0, (mx >> sh) << sh)])   # bits shifted out are dropped
                    else:
                        r = IntervalSet([(a.lo() << sh, a.hi() << sh)])
        elif k == 'bin' and t[1] == 'BitOr':
            a = self.term_range(body, t[2], pf, ty, depth + 1)
            b = self.term_range(body, t[3], pf, ty, depth + 1)
            if not a.empty() and not b.empty() and a.lo() >= 0 and b.lo() >= 0 and a.hi() != INF and b.hi() != INF:
                r = IntervalSet([(max(a.lo(), b.lo()), a.hi() + b.hi())])
        elif k == 'bin' and t[1] in ('Add', 'Sub'):
            a = self.term_range(body, t[2], pf, ty, depth + 1)
            b = self.term_range(body, t[3], pf, ty, depth + 1)
            if not a.empty() and not b.empty():
                if t[1] == 'Add':
                    r = IntervalSet([(a.lo() + b.lo(), a.hi() + b.hi())])
                else:
                    r = IntervalSet([(a.lo() - b.hi(), a.hi() - b.lo())])
        elif k == 'deref' and t[1][0] in ('index', 'deref'):
            return self.term_range(body, t[1], pf, ty, depth + 1)
        elif k == 'index':
            base = deref_all(t[1])
            if base[0] == 'const' and isinstance(base[1], tuple) and base[1]:
                vals = sorted(set(base[1]))
                r = IntervalSet([(v, v) for v in vals])
            else:
                # an element of a byte slice / byte vector / byte array
                from pat import access_path
                import re as _re
                rt, st = access_path(t[1])
                if rt[0] in ('init', 'hav') and not st and _re.search(r'\[u8(;|\])|Vec<u8>', str(body.local_ty(rt[1]).get('s', ''))):
                    r = IntervalSet([(0, 255)])
        elif k in ('field', 'deref') and '::{closure' in body.path and self.upvar_of(t) is not None:
            # a variable captured by a closure stands for what it held in the enclosing function where the closure was built
            r = self.upvar_range(body, self.upvar_of(t), ty, depth)
        elif k == 'field' and t[1][0] == 'downcast':
            # payload of Some/Ok/Continue of a local callee's result: the callee's return range
            inner = t[1][1]
            if is_call(inner, 'Try::branch') and inner[2]:
                inner = inner[2][0]
            if inner[0] == 'call':
                rr = self.ret_range(inner[1], t[1][2])
                if rr is not None:
                    r = rr
        elif k == 'call':
            if called(t[1], 'saturating_add', 'saturating_sub', 'saturating_neg', 'saturating_mul'):
                r = tyr
            elif self.is_length(t):
                r = IntervalSet([(0, LEN_MAX)])   # A2: element counts that take part in 32-bit arithmetic
            elif called(t[1], 'abs') and t[2]:
                a = self.term_range(body, t[2][0], pf, ty, depth + 1)
                if not a.empty():
                    m = max(abs(a.lo()), abs(a.hi()))
                    r = IntervalSet([(0, m)])
            elif called(t[1], 'Ord::clamp', 'impls::clamp', '::clamp') and len(t[2]) == 3:
                # x.clamp(lo, hi) lies in [lo, hi] (it panics when lo > hi): bounded by the extremes of the two bound ranges
                lo_r = self.term_range(body, t[2][1], pf, ty, depth + 1)
                hi_r = self.term_range(body, t[2][2], pf, ty, depth + 1)
                if not lo_r.empty() and not hi_r.empty():
                    r = IntervalSet([(lo_r.lo(), max(hi_r.hi(), lo_r.lo()))])
            elif called(t[1], 'Ord::max', 'cmp::max') and len(t[2]) == 2:
                a, c = (self.term_range(body, x, pf, ty, depth + 1) for x in t[2])
                if not a.empty() and not c.empty():
                    r = IntervalSet([(max(a.lo(), c.lo()), max(a.hi(), c.hi()))])
            elif called(t[1], 'Ord::min', 'cmp::min') and len(t[2]) == 2:
                a, c = (self.term_range(body, x, pf, ty, depth + 1) for x in t[2])
                if not a.empty() and not c.empty():
                    r = IntervalSet([(min(a.lo(), c.lo()), min(a.hi(), c.hi()))])
        elif k == 'init' and t[1] <= body.argc and t[1] >= 1:
            pr = self.param_range(body, t[1])
            if pr is not None:
                r = pr
            lt = self.local_ty(body, t[1])
            if lt in INT_RANGES:
                r = (r or IntervalSet()).intersect(IntervalSet.of_type(lt))
        elif k in ('init', 'hav'):
            lt = self.local_ty(body, t[1])
            if lt in INT_RANGES:
                r = IntervalSet.of_type(lt)
        if r is None:
            r = tyr
        # refine by the path's own facts about this term
        try:
            pr = pf.range_of_term(t)
            r2 = r.intersect(pr)
            if not r2.empty() or r.empty():
                r = r2
        except Exception:
            pass
        return r

    @staticmethod
    def upvar_of(t):
        """index of the captured variable a closure-body term reads (`*(*_1).k`), else None"""
        t = deref_all(t)
        if t[0] == 'field' and deref_all(t[1])[0] == 'init' and deref_all(t[1])[1] == 1:
            ix = t[3] if len(t) > 3 else t[2]
            return ix if isinstance(ix, int) else None
        return None

    def upvar_range(self, body, ix, ty, depth):
        """Range of captured variable `ix` of a closure: the join of its ranges in the enclosing function at the places where the
        closure value is built (under the conditions of the path up to there); None if that cannot be read."""
        key = ('upvar', body.path, ix)
        if key in self.param_cache:
            return self.param_cache[key]
        self.param_cache[key] = None
        f = self.ctx.facts
        parent = body.path.rsplit('::{closure', 1)[0]
        pb = f.bodies.get(parent)
        if pb is None or depth > 8:
            return None
        paths, _ = self.paths(pb)
        res = IntervalSet([])
        found = False
        for q in paths:
            for e in q.calls():
                for a in e[2]:
                    for s_ in subterms(a):
                        if s_[0] == 'agg' and isinstance(s_[1], tuple) and s_[1][0] == 'closure' and s_[1][1] == body.path and ix < len(s_[2]):
                            found = True
                            pf = PathFacts(q.conds[:e[6]])
                            res = res.union(self.term_range(pb, deref_all(s_[2][ix]), pf, ty, depth + 1))
        out = res if found and not res.empty() else None
        self.param_cache[key] = out
        return out

    def ret_range(self, callee, variant):
        """Range of the integer payload of Some(..)/Ok(..) over all return paths of a local callee."""
        f = self.ctx.facts
        b = f.bodies.get(callee)
        if b is None:
            cands = [x for x in f.bodies if x == callee]
            return None
        key = ('ret', callee, variant)
        if key in self.param_cache:
            return self.param_cache[key]
        self.param_cache[key] = None
        want = {'Some': 'Some', 'Ok': 'Ok', 'Continue': 'Ok'}.get(variant, variant)
        out = IntervalSet([])
        paths, capped = self.paths(b)
        if capped:
            return None
        oty = None
        for q in paths:
            if q.end[0] != 'return':
                continue
            r = q.ret
            if r[0] == 'agg' and isinstance(r[1], tuple) and r[1][0] == 'adt' and r[1][2] == want and r[2]:
                pf = PathFacts(q.conds)
                rr = self.term_range(b, r[2][0], pf, None)
                # propagate conditions on casts of the same source (n = HEX[..] as u16; n != 255)
                out = out.union(rr)
            elif r[0] == 'agg':
                continue
            else:
                # result forwarded from elsewhere (e.g. `?`): unknown
                if not (r[0] == 'call' and called(r[1], 'FromResidual::from_residual')):
                    self.param_cache[key] = None
                    return None
        self.param_cache[key] = out if not out.empty() else None
        return self.param_cache[key]

    @staticmethod
    def is_length(t):
        t = strip_casts(t)
        if t[0] == 'call' and called(t[1], 'len', 'Vec::len', 'slice::len', 'VecDeque::len', 'BTreeMap::len', 'str::len', 'String::len'):
            return True
        if t[0] == 'len':
            return True
        if t[0] == 'bin' and t[1] == 'BitAnd':
            return True
        # usize values read from a header/entry tuple in the selector are counts/lengths of the document
        return t[0] in ('field', 'downcast', 'init', 'hav', 'index')

    def param_range(self, body, idx):
        """Join of the argument ranges over all call sites of a private function (None = unconstrained)."""
        key = (body.path, idx)
        if key in self.param_cache:
            return self.param_cache[key]
        if body.vis == 'pub' or body.kind == 'Closure' or key in self.in_progress:
            return None
        self.in_progress.add(key)
        f = self.ctx.facts
        cg = self.ctx.cg
        res = IntervalSet([])
        any_site = False
        for caller, tgts in cg.edges.items():
            if body.path not in tgts:
                continue
            if any(s['kind'] != 'call' for s in tgts[body.path]):
                res = None
                break
            cb = f.bodies[caller]
            paths, _ = self.paths(cb)
            for q in paths:
                for e in q.calls():
                    c = e[5]['callee']
                    r = c.get('resolved') if c.get('resolved_local') else (c.get('written') if c.get('local') else None)
                    if r != body.path or idx - 1 >= len(e[2]):
                        continue
                    any_site = True
                    pf = PathFacts(q.conds[:e[6]])
                    ty = self.local_ty(body, idx)
                    res = res.union(self.term_range(cb, e[2][idx - 1], pf, ty))
            if res is None:
                break
        self.in_progress.discard(key)
        if res is not None and not any_site:
            res = None
        self.param_cache[key] = res
        return res


def _closure_operands_read(rg, b, p, operands):
    """In a closure: every variable the operands mention is a captured variable whose range was read in the enclosing function."""
    if '::{closure' not in p:
        return False
    seen = False
    for o_ in operands:
        for x_ in subterms(o_):
            if x_[0] in ('hav', 'post'):
                return False
            if x_[0] == 'init' and isinstance(x_[1], int):
                if x_[1] != 1:
                    return False
        ups = [rg.upvar_of(x_) for x_ in subterms(o_) if x_[0] in ('field',)]
        ups = [u for u in ups if u is not None]
        for u in ups:
            seen = True
            if rg.upvar_range(b, u, None, 0) is None:
                return False
    return seen


def overflow_sites(ctx, run, rule, cone, want_types=NARROW, floor=None, label='narrow-int arithmetic'):
    f = ctx.facts
    rg = Ranger(ctx)
    sites = {}   # (fn, desc) -> [ok flags, witness]
    for p in sorted(cone):
        b = f.bodies.get(p)
        if b is None or b.kind == 'Promoted':
            continue
        paths, capped = rg.paths(b)
        for q in paths:
            for e in q.events:
                if e[0] == 'assert' and (e[1].startswith('Overflow(') or e[1] == 'OverflowNeg'):
                    c = e[4]
                    ty = c[4] if c[0] == 'ovf' and len(c) > 4 else None
                    if e[1] == 'OverflowNeg':
                        # operand type from the operand term
                        ty = ty or _guess_ty(b, e[2][0])
                    if ty not in want_types:
                        continue
                    pf = PathFacts(q.conds[:e[6]])
                    seed_ranges(rg, b, pf, ty)
                    if pf.infeasible():
                        continue
                    tr = IntervalSet.of_type(ty)
                    if e[1] == 'OverflowNeg':
                        a = rg.term_range(b, e[2][0], pf, ty)
                        ok = not a.empty() and a.lo() > tr.lo()
                        desc = f'neg({show(e[2][0])})'
                        wit = f'operand in {a}'
                    else:
                        op = e[1][9:-1]
                        a = rg.term_range(b, e[2][0], pf, ty)
                        bb_ = rg.term_range(b, e[2][1], pf, ty)
                        if a.empty() or bb_.empty():
                            continue
                        if op == 'Add':
                            lo, hi = a.lo() + bb_.lo(), a.hi() + bb_.hi()
                        elif op == 'Sub':
                            lo, hi = a.lo() - bb_.hi(), a.hi() - bb_.lo()
                        else:
                            cands = [a.lo() * bb_.lo(), a.lo() * bb_.hi(), a.hi() * bb_.lo(), a.hi() * bb_.hi()]
                            lo, hi = min(cands), max(cands)
                        ok = lo >= tr.lo() and hi <= tr.hi()
                        desc = f'{op}({show(e[2][0])},{show(e[2][1])}):{ty}'
                        wit = f'{show(e[2][0])} in {a}, {show(e[2][1])} in {bb_} -> result in [{lo},{hi}] vs {ty} {tr}'
                    t = b.blocks[e[3]]['term']
                    k = (p, desc)
                    s = sites.setdefault(k, {'ok': True, 'wit': None, 'loc': f"{t.get('file')}:{t.get('line')}"})
                    if not ok and s['ok']:
                        s['ok'] = False
                        s['wit'] = wit
                        from panics import opaque_container
                        s['opaque'] = None
                        for x in e[2]:
                            s['opaque'] = s['opaque'] or opaque_container(x, b, arithmetic=True)
                        # were the ranges of the parameters involved derived from the arguments at every call site (a private function all of
                        # whose callers were read)?  then "what the callers pass" is part of the verdict, not an open question
                        prm = {x_[1] for o_ in e[2] for x_ in subterms(o_) if x_[0] == 'init' and isinstance(x_[1], int) and 1 <= x_[1] <= b.argc}
                        s['callers_read'] = bool(prm) and '::{closure' not in p and b.vis != 'pub' and all(rg.param_range(b, k_) is not None for k_ in prm) and \
                            not any(x_[0] in ('hav', 'post') for o_ in e[2] for x_ in subterms(o_))
                        s['callers_read'] = s['callers_read'] or _closure_operands_read(rg, b, p, e[2])
                    elif s['wit'] is None:
                        s['wit'] = wit
                elif e[0] == 'call' and called(e[1], 'abs') and e[2]:
                    m = __import__('re').search(r'impl (\w+)>::abs', e[1])
                    ty = m.group(1) if m else None
                    if ty not in want_types:
                        continue
                    pf = PathFacts(q.conds[:e[6]])
                    if pf.infeasible():
                        continue
                    a = rg.term_range(b, e[2][0], pf, ty)
                    tr = IntervalSet.of_type(ty)
                    ok = not a.empty() and a.lo() > tr.lo()
                    t = e[5]
                    k = (p, f'abs({show(e[2][0])}):{ty}')
                    s = sites.setdefault(k, {'ok': True, 'wit': None, 'loc': f"{t.get('file')}:{t.get('line')}"})
                    if not ok and s['ok']:
                        s['ok'] = False
                        prm = {x_[1] for x_ in subterms(e[2][0]) if x_[0] == 'init' and isinstance(x_[1], int) and 1 <= x_[1] <= b.argc}
                        s['callers_read'] = (bool(prm) and '::{closure' not in p and b.vis != 'pub' and all(rg.param_range(b, k_) is not None for k_ in prm)
                                             and not any(x_[0] in ('hav', 'post') for x_ in subterms(e[2][0]))) or _closure_operands_read(rg, b, p, e[2][:1])
                    s['wit'] = f'operand in {a}; abs() overflows for {tr.lo()}'
    n = 0
    from panics import baseline_sites
    base = baseline_sites()
    for (p, desc), s in sorted(sites.items()):
        n += 1
        if s['ok']:
            run.proved(rule, p, desc, s['wit'] or '', s['loc'])
        elif s.get('opaque'):
            run.undecided(rule, p, desc, f'{label} not shown to stay in range, but not refuted either ({s["opaque"]}, which the interval evaluation does not model): {s["wit"]}', s['loc'])
        elif base is not None and p not in base['functions'] and s.get('callers_read'):
            run.violation(rule, p, desc, f'{label} can overflow for the arguments its callers pass (every call site of this private function was read; panics in dev builds, wraps in release): {s["wit"]}', s['loc'])
        elif base is not None and p not in base['functions']:
            run.undecided(rule, p, desc, f'{label} in a function that did not exist on the pinned tree, not shown to stay in range ({s["wit"]}); whether its callers bound the operands is not decided', s['loc'])
        else:
            run.violation(rule, p, desc, f'{label} can overflow (panics in dev builds, wraps in release): {s["wit"]}', s['loc'])
    if floor is not None:
        run.floor(rule, f'{label} sites in the cone', n, floor)
    return n


def seed_ranges(rg, body, pf, ty):
    """Give every atom that occurs in a difference constraint its structural range, so the zone closure can combine
    `idx <= length` with `length <= 2^29-1`."""
    empty = PathFacts([])
    atoms = set()
    for (a, b) in list(pf.diff):
        atoms.add(a)
        atoms.add(b)
    for a in atoms:
        if a == PathFacts.ZERO:
            continue
        r = rg.term_range(body, a, empty, ty)
        if not r.empty():
            pf.iv[a] = pf.iv.get(a, IntervalSet()).intersect(r)
    pf._closed = False


def _guess_ty(body, t):
    for s in subterms(t):
        if s[0] in ('init', 'hav'):
            return body.local_ty(s[1]).get('s')
    return None


def table_index_sites(ctx, run, rule, cone, floor=None):
    """Indexing into fixed-size tables (arrays, statics, byte-string constants): the index (or range end) must be
    proven smaller than (at most) the table length by interval evaluation — a table indexed by a quantity that
    grows with the input (nesting depth, a length) crashes at a moderate size."""
    f = ctx.facts
    rg = Ranger(ctx)
    sites = {}
    for p in sorted(cone):
        b = f.bodies.get(p)
        if b is None or b.kind == 'Promoted':
            continue
        paths, capped = rg.paths(b)
        for q in paths:
            for e in q.events:
                if e[0] == 'assert' and e[1] == 'BoundsCheck':
                    ln, ix = e[2][0], e[2][1]
                    if not (ln[0] == 'const' and isinstance(ln[1], int)):
                        continue
                    pf = PathFacts(q.conds[:e[6]])
                    if pf.infeasible():
                        continue
                    r = rg.term_range(b, ix, pf, 'usize')
                    ok = (not r.empty()) and r.hi() < ln[1] and r.lo() >= 0
                    t = b.blocks[e[3]]['term']
                    k = (p, f'table[{ln[1]}][{show(ix)}]')
                    s = sites.setdefault(k, {'ok': True, 'wit': f'index in {r}', 'loc': f"{t.get('file')}:{t.get('line')}"})
                    if not ok:
                        s['ok'] = False
                        s['wit'] = f'index {show(ix)} ranges over {r} but the table has {ln[1]} entries'
                elif e[0] == 'call' and (called(e[1], 'Index::index', 'IndexMut::index_mut') or canon(e[1]).endswith('::index')) and len(e[2]) == 2:
                    base = e[2][0]
                    n = table_len(b, e[5], base)
                    if n is None:
                        continue
                    idx = deref_all(e[2][1])
                    pf = PathFacts(q.conds[:e[6]])
                    if pf.infeasible():
                        continue
                    ends = []
                    if idx[0] == 'agg' and isinstance(idx[1], tuple) and idx[1][0] == 'adt':
                        nm = idx[1][1].split('::')[-1]
                        if nm in ('RangeTo', 'Range'):
                            ends.append((idx[2][-1], 0))
                        elif nm in ('RangeToInclusive',):
                            ends.append((idx[2][-1], 1))
                        elif nm == 'RangeFrom':
                            ends.append((idx[2][0], 0))
                    elif is_call(idx, 'RangeInclusive::new'):
                        ends.append((idx[2][1], 1))
                    else:
                        ends.append((idx, 1))
                    t = e[5]
                    for (et, plus) in ends:
                        r = rg.term_range(b, et, pf, 'usize')
                        ok = (not r.empty()) and r.hi() + plus <= n
                        k = (p, f'table[{n}][{show(idx)}]')
                        s = sites.setdefault(k, {'ok': True, 'wit': f'bound in {r}', 'loc': f"{t.get('file')}:{t.get('line')}"})
                        if not ok:
                            s['ok'] = False
                            s['wit'] = f'{show(et)} ranges over {r} but the table has {n} entries'
    n = 0
    for (p, desc), s in sorted(sites.items()):
        n += 1
        if s['ok']:
            run.proved(rule, p, desc, s['wit'], s['loc'])
        else:
            import report as _rp
            base_fns = _rp.baseline_functions()
            if not _rp.is_baseline_fn(p):
                run.undecided(rule, p, desc, 'index into a fixed-size table in a function that did not exist on the pinned tree: ' + s['wit'] +
                              '; what its callers pass (struct fields, parameters) is not bounded here: not decided', s['loc'])
            else:
                run.violation(rule, p, desc, 'index into a fixed-size table is not bounded by its length: ' + s['wit'] + ' (panics once the quantity grows past the table)', s['loc'])
    if floor is not None:
        run.floor(rule, 'fixed-size table index sites', n, floor)
    return n


def table_len(body, term, base):
    """Length of the fixed-size table a base operand refers to (array type / byte-string constant), else None."""
    import re
    t = deref_all(base)
    if t[0] == 'const' and isinstance(t[1], tuple):
        return len(t[1])
    if t[0] == 'const' and isinstance(t[1], str) and not t[1].startswith('bits:') and 'str' in str(t[2] if len(t) > 2 else ''):
        return len(t[1].encode())      # a string constant sliced by position
    # type of the indexed operand as written in the callee's generic arguments: <[u8; 128] as Index<..>>::index
    full = term['callee'].get('full') or ''
    m = re.match(r'^<\[[^;\]]+; (\d+)\] as ', full)
    if m:
        return int(m.group(1))
    return None


# ------------------------------------------------------------------ R20.5 an integer argument of a public function is not narrowed blindly

def param_cast_sites(ctx, run, rule, only=None, floor=None):
    """Every `as` cast applied directly to an integer parameter of a public function must be value preserving for all the values that
    reach it: the whole range of the parameter's type, cut down by the conditions of the path (`if index < 0 { .. }`).  A caller may
    pass any value (usize::MAX, i32::MIN); a cast that wraps turns it into a different, plausible-looking position."""
    f = ctx.facts
    rg = Ranger(ctx)
    n = 0
    for p, b in sorted(f.bodies.items()):
        if b.kind == 'Promoted' or b.vis != 'pub' or '::{closure' in p or (only is not None and not only(p)):
            continue
        ints = [k for k in range(1, b.argc + 1) if b.local_ty(k).get('s') in INT_RANGES]
        if not ints:
            continue
        paths, capped = rg.paths(b)
        sites = {}
        for q in paths:
            occ = [(a, q.conds[:e[6]], e[5]) for e in q.calls() for a in e[2]]
            if q.ret is not None:
                occ.append((q.ret, q.conds, None))
            for t, conds, te in occ:
                for s in subterms(t):
                    if not (s[0] == 'cast' and s[1] == 'IntToInt' and len(s) > 3 and s[3] in INT_RANGES):
                        continue
                    src = deref_all(s[2])
                    if not (src[0] == 'init' and src[1] in ints):
                        continue
                    pf = PathFacts(conds)
                    if pf.infeasible():
                        continue
                    sty = b.local_ty(src[1]).get('s')
                    r = rg.term_range(b, src, pf, sty)
                    to = IntervalSet.of_type(s[3])
                    ok = (not r.empty()) and r.subset_of(to)
                    key = (b.name_of(src[1]) or f'#{src[1]}', sty, s[3])
                    d = sites.setdefault(key, {'ok': True, 'wit': None, 'loc': f"{te.get('file')}:{te.get('line')}" if te else f'{b.file}:{b.line}'})
                    if not ok and d['ok']:
                        d['ok'] = False
                        d['wit'] = f'{key[0]} in {r}'
                    elif d['wit'] is None:
                        d['wit'] = f'{key[0]} in {r}'
        for (nm, sty, tty), d in sorted(sites.items()):
            n += 1
            desc = f'cast[{nm}: {sty} as {tty}]'
            if d['ok']:
                run.proved(rule, p, desc, f'value preserving on every path ({d["wit"]} fits {tty})', d['loc'])
            else:
                run.violation(rule, p, desc, f'the argument `{nm}` is cast from {sty} to {tty} on a path where it is only known to be {d["wit"].split(" in ", 1)[1]}: an extreme argument wraps to a '
                              f'different value (usize::MAX as i32 is -1) and is then used as if the caller had passed that', d['loc'])
    if floor is not None:
        run.floor(rule, 'casts of integer parameters of public functions', n, floor)
    return n
