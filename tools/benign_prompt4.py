#!/usr/bin/env python3
"""Print the prompt given to a sub-agent that produces BEHAVIOUR-PRESERVING changes near one property
(only the property text + its worktree).  Used to test the checks for false alarms."""
import json, sys
pid = sys.argv[1]
wt = sys.argv[2] if len(sys.argv) > 2 else f"/tmp/benign/{pid}"
for l in open('/verif/properties.jsonl'):
    p = json.loads(l)
    if p['id'] == pid:
        break
else:
    sys.exit("no such property")
mech = "\n".join(f"  - {m['name']} ({m['where']})" for m in p['anchors']['mechanism'])
print(f"""You are helping test a verification tool for FALSE ALARMS. You work ONLY inside the git worktree `{wt}` (a checkout of the Rust library b41sh/jsonb: a PostgreSQL-style binary JSONB encoding, JSON text parser, JSONPath parser/evaluator and byte-level JSONB functions). Do not touch `/repo` or `/verif`, and do not look into `/verif`. The sandbox is offline: always pass `--offline` to cargo. A warm `target/` directory is already in the worktree.

Here is a semantic property the library satisfies (or is meant to satisfy):

  id: {p['id']}
  title: {p['title']}
  statement: {p['statement']}
  quantified over: {p['quantifier']['text']}
  files involved: {', '.join(p['anchors']['files'])}
  mechanisms that make it hold:
{mech}
  observed at: {', '.join(p['anchors'].get('observe_at', []))}

YOUR TASK: produce THREE independent source changes ("R1", "R2", "R3") under `{wt}/src`, each touching the code these mechanisms live in, each of which a maintainer might realistically make, and each of which KEEPS THE PROPERTY TRUE FOR EVERY INPUT (it must not change any observable behaviour that the property constrains; ideally it changes no observable behaviour at all). The crate must still compile and the existing test suite must still pass. They are "improvements" of the kind that is easy to get subtly wrong, but yours must be RIGHT; three different kinds:

  R1 (a correct fast path or early exit): add a shortcut that returns exactly what the general code would have returned, for every input that takes the shortcut — e.g. answer immediately when both operands are the very same bytes *and that is provably right for this function*, skip a loop when a count is zero, return early once the answer can no longer change, handle an empty container before setting up builders/queues, test the cheap condition before the expensive one when both are side-effect free. You must argue precisely which inputs take the shortcut and why the general path gives the same bytes / value / error for each of them (think of scalars vs containers of each kind, empty containers, numbers with several encodings, NaN and -0.0, invalid input, a non-empty output buffer).
  R2 (a correct allocation / performance improvement): avoid an intermediate `Vec`/`String`/`VecDeque`/`BTreeMap` or a re-encoding that is not needed, borrow instead of clone, reserve exact capacity, read a header or length once instead of repeatedly, hoist an invariant computation out of a loop, replace a per-item allocation by a slice of a static table that is provably long enough *for every input* (or keep the general path as fallback beyond the table), fold two passes over the same bytes into one, use `extend_from_slice` of a contiguous range instead of pushing item by item. Results must be byte-identical for every input, including error cases and what is left in an output buffer on error.
  R3 (a correct generalisation, hardening or bug-fix-shaped edit that does not change any result the property constrains): make an implicit case explicit (an arm that spells out what the fall-through arm already did), replace indexing/slicing by `get(..)` with the *same* error or result on the failing side, use checked/saturating arithmetic where the unchecked one cannot overflow, normalise something in a way that provably cannot change the result (e.g. comparing lengths before contents where unequal lengths already imply the same answer), tighten an internal invariant with an early error that can only trigger on input that was already rejected with the same error, replace a hand-written loop by the std method that does exactly the same, or restructure error handling so that the same error value comes out.
Each change should be 10-100 changed lines, touch a different function than the other two where possible, and must not change tests, Cargo.toml, public signatures or documented behaviour. Do NOT include anything that weakens a check, changes a constant's value, changes which inputs are accepted/rejected, or alters output bytes/text in any case — if you are not sure a rewrite is equivalent in every edge case (empty input, maximum lengths, negative/extreme integers, NaN/-0.0, nested/empty containers, invalid input), choose a different rewrite.

For each of R1, R2, R3:
 1. Start from a clean tree (`git -C {wt} checkout -- src && git -C {wt} status --short` shows nothing under src/).
 2. Make the change under `{wt}/src`.
 3. Check it compiles and the existing suite still passes: `cd {wt} && cargo test --offline --no-fail-fast 2>&1 | grep -E "^test result|FAILED"` must show 2 passed in the unit tests and 69 passed / 1 failed in `tests/it` — the single failing test `functions::test_to_serde_json` fails on the unchanged tree too and must be the ONLY failure.
 4. Write a differential sanity test `{wt}/tests/benign_{{R1|R2|R3}}.rs` using only the public API of the `jsonb` crate that exercises the changed code on a good spread of inputs including edge cases and asserts concrete expected results that you first observed on the UNCHANGED tree (so the test passes both without and with your change). Run it both ways.
 5. Save the change with `git -C {wt} diff -- src > {wt}/benign_R1.diff` (paths relative to the repo root) and write `{wt}/benign_R1.md`: property id, what was changed, and a careful argument why behaviour is unchanged (or why the property still holds for every input), listing the edge cases you considered.
 6. Restore the tree (`git -C {wt} checkout -- src`) before starting the next one; leave the `tests/benign_*.rs`, `benign_*.diff`, `benign_*.md` files in place (untracked). NEVER use `git stash` (the stash is shared by all worktrees of this repository and other agents work in sibling worktrees).

Finish with a short report listing, for R1-R3: files/functions changed, a one-line description, and the outcomes of the runs.""")
