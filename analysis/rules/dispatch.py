"""C11: every document argument is dispatched independently on its representation (R11.1), argument order is
preserved into the cores (R11.3)."""
from mir import Expr, walk, callee_name, reachable_from, render, defs
from pat import called, canon
from facts import term_targets

TEXT_CAPABLE = (
    'functions::is_jsonb', 'parser::parse_value', 'de::from_slice', 'slice::first', 'slice::is_empty', 'slice::len', 'len',
    'str::from_utf8', 'from_utf8', 'String::from_utf8_lossy', 'from_utf8_lossy', 'Ord::cmp', 'PartialEq::eq', 'PartialOrd::partial_cmp',
    'parser::parse_lazy_value', 'Cow::Borrowed', 'Deref::deref', 'AsRef::as_ref', 'slice::to_vec', 'ToOwned::to_owned', 'slice::iter',
)


def doc_params(fn):
    """1-based positions of `&[u8]` document parameters of a fns entry."""
    out = []
    for i, t in enumerate(fn['inputs']):
        if t.get('k') == 'ref' and not t.get('mut') and t['inner'].get('s') == '[u8]':
            out.append(i + 1)
    return out


def dispatchers(ctx):
    """Public functions of functions.rs / lazy_value.rs / parser.rs that accept a document either as text or as JSONB."""
    f = ctx.facts
    out = {}
    for p, fn in sorted(f.fns.items()):
        if not fn['reachable'] or p not in f.bodies:
            continue
        if not (p.startswith('functions::') or p.startswith('lazy_value::') or p == 'parser::parse_lazy_value'):
            continue
        if p in ('functions::is_jsonb', 'functions::build_array', 'functions::build_object'):
            continue
        dp = doc_params(fn)
        if dp:
            out[p] = dp
    return out


def uses_param(t, k):
    """Is the operand the raw parameter k itself (through references, reborrows and unsizing only)?"""
    while True:
        if t[0] == 'arg':
            return t[1] == k
        if t[0] in ('ref', 'deref'):
            t = t[1]
        elif t[0] == 'cast':
            t = t[2]
        else:
            return False


_PREFIX = None


def _prefix_bytes():
    global _PREFIX
    if _PREFIX is None:
        import sym
        from rules.layout import cv
        vals = [cv(sym.FACTS, n) for n in ('ARRAY_PREFIX', 'OBJECT_PREFIX', 'SCALAR_PREFIX')]
        _PREFIX = set(vals) if None not in vals else set()
    return _PREFIX


def _first_byte_of(t, k):
    """the term is the first byte of parameter k: *(param.first() as Some).0, param[0], *param.get(0).."""
    for _ in range(6):
        if t[0] in ('deref', 'ref'):
            t = t[1]
        elif t[0] == 'cast':
            t = t[2]
        else:
            break
    if t[0] == 'field' and t[1][0] == 'downcast' and t[1][2] == 'Some' and t[1][1][0] == 'call':
        c = t[1][1]
        nm = canon(c[1])
        if nm.endswith('::first') and c[2] and uses_param(c[2][0], k):
            return True
        if nm.endswith('::get') and len(c[2]) == 2 and uses_param(c[2][0], k) and c[2][1][0] == 'const' and c[2][1][1] == 0:
            return True
    if t[0] == 'index' and uses_param(t[1], k) and t[2][0] == 'const' and t[2][1] == 0:
        return True
    return False


def true_edges_of_sniff(body, ex, k):
    """Edges (bb, target) taken when is_jsonb(param k) returned true."""
    edges = []
    sniff_dests = {}
    for bb, t in body.calls():
        if called(callee_name(t), 'functions::is_jsonb') and t['args']:
            a = ex.operand(t['args'][0])
            if uses_param(a, k):
                sniff_dests[t['dest']['local']] = bb
    # an inline sniff: a switch on the first byte of the parameter (`match value.first() { Some(&(ARRAY_PREFIX | OBJECT_PREFIX |
    # SCALAR_PREFIX)) => .. }`, `match value[0] { .. }`) whose arm values are JSONB prefix bytes establishes the same fact on those arms
    prefixes = _prefix_bytes()
    n_inline = 0
    if prefixes:
        for b in body.blocks:
            t = b['term']
            if t['k'] != 'switch' or not t['targets']:
                continue
            d = ex.operand(t['discr'])
            if _first_byte_of(d, k):
                hit = [x for v, x in t['targets'] if v in prefixes]
                if hit and all(v in prefixes for v, x in t['targets']):
                    edges.extend((b['id'], x) for x in hit)
                    n_inline += 1
    if not sniff_dests:
        return edges, n_inline
    for b in body.blocks:
        t = b['term']
        if t['k'] != 'switch':
            continue
        d = t['discr']
        if d['k'] not in ('copy', 'move'):
            continue
        proj = d['place'].get('proj') or []
        l = d['place']['local']
        if proj:
            # `match (is_jsonb(a), is_jsonb(b))`: the switch reads a field of a tuple built from the sniff results
            if len(proj) == 1 and proj[0].get('k') == 'field' and isinstance(proj[0].get('i'), int):
                ds_ = [x for x in defs(body).get(l, []) if x[0] == 'stmt' and x[3] is not None and x[3].get('k') == 'agg' and x[3].get('agg') == 'tuple']
                if len(ds_) == 1 and proj[0]['i'] < len(ds_[0][3]['ops']):
                    op_ = ds_[0][3]['ops'][proj[0]['i']]
                    if op_['k'] in ('copy', 'move') and not op_['place'].get('proj'):
                        l = op_['place']['local']
                    else:
                        continue
                else:
                    continue
            else:
                continue
        neg = False
        # follow `_x = Not(_y)` / plain copies
        for _ in range(3):
            if l in sniff_dests:
                break
            ds = defs(body).get(l, [])
            if len(ds) == 1 and ds[0][0] == 'stmt' and ds[0][3] is not None:
                rv = ds[0][3]
                if rv['k'] == 'un' and rv['op'] == 'Not' and rv['a']['k'] in ('copy', 'move') and not rv['a']['place'].get('proj'):
                    neg = not neg
                    l = rv['a']['place']['local']
                    continue
                if rv['k'] == 'use' and rv['op']['k'] in ('copy', 'move') and not rv['op']['place'].get('proj'):
                    l = rv['op']['place']['local']
                    continue
            break
        if l not in sniff_dests:
            continue
        # bool switch: targets [(0, bbFalse)], otherwise = true
        zero = [x for v, x in t['targets'] if v == 0]
        true_t = t['otherwise']
        false_t = zero[0] if zero else None
        if neg:
            true_t, false_t = false_t, true_t
        if true_t is not None:
            edges.append((b['id'], true_t))
    return edges, len(sniff_dests) + n_inline


def reachable_without(body, removed):
    succ = body.succ()
    seen = {0}
    st = [0]
    rem = set(removed)
    while st:
        x = st.pop()
        for y in succ[x]:
            if (x, y) in rem:
                continue
            if y not in seen:
                seen.add(y)
                st.append(y)
    return seen


def r11_1(ctx, run, rule='R11.1', only=None):
    f = ctx.facts
    ds = dispatchers(ctx)
    if only is None:
        run.floor(rule, 'public functions with text-or-JSONB document parameters', len(ds), 55)
    else:
        run.floor(rule, 'dispatching entry points of this property', len([p for p in ds if p in only]), len(only))
    nparam = 0
    memo = {}

    def analyse(p, k, depth=0):
        """(bad call sites, number of binary consumers, number of sniffs) for document parameter k of function p"""
        if (p, k) in memo:
            return memo[(p, k)]
        memo[(p, k)] = ([('rec', None, p)], 1, 0)     # recursion guard: pessimistic
        b = f.bodies[p]
        ex = Expr(b)
        edges, nsniff = true_edges_of_sniff(b, ex, k)
        unguarded = reachable_without(b, edges)
        bad = []
        consumers = 0
        for bb, t in b.calls():
            nm = callee_name(t)
            hit = [i for i, a in enumerate(t['args']) if uses_param(ex.operand(a), k)]
            if not hit:
                continue
            c = t['callee']
            local = c.get('resolved') if c.get('resolved_local') else (c.get('written') if c.get('local') else None)
            if called(nm, *TEXT_CAPABLE):
                continue
            if called(nm, 'Vec::extend_from_slice') and hit == [1]:
                continue    # copying the raw bytes does not interpret them
            if local in ds:
                # a public function that dispatches the argument itself (position must be a document parameter there)
                if all((i + 1) in ds[local] for i in hit):
                    continue
            elif local in f.bodies and local in f.fns and depth < 4 and (local.startswith('functions::') or local.startswith('lazy_value::')):
                # a private helper that dispatches the argument itself: judged by the same rule
                dp = doc_params(f.fns[local])
                if all((i + 1) in dp for i in hit) and all(not analyse(local, i + 1, depth + 1)[0] for i in hit):
                    continue
            consumers += 1
            if bb in unguarded:
                bad.append((bb, t, nm))
        memo[(p, k)] = (bad, consumers, nsniff)
        return memo[(p, k)]

    for p, params in ds.items():
        if only is not None and p not in only:
            continue
        b = f.bodies[p]
        for k in params:
            nparam += 1
            bad, consumers, nsniff = analyse(p, k)
            # raw slicing of the parameter outside calls (Index on the param) shows up as Index::index calls above
            name = (f.fns[p]['params'][k - 1] if k - 1 < len(f.fns[p]['params']) else f'#{k}') or f'#{k}'
            if bad:
                bb, t, nm = bad[0]
                run.violation(rule, p, f'param[{name}]',
                              f'the document argument `{name}` reaches the JSONB-only consumer `{canon(nm)}` on a path on which is_jsonb({name}) was not established '
                              f'({len(bad)} such call site(s)): JSON text passed in this position is read as binary', f"{t.get('file')}:{t.get('line')}")
            elif consumers == 0 and nsniff == 0:
                run.proved(rule, p, f'param[{name}]', 'only handed to text-capable or self-dispatching callees', f'{b.file}:{b.line}', nontrivial=False)
            else:
                run.proved(rule, p, f'param[{name}]', f'{consumers} binary consumer call(s), all behind is_jsonb({name}) == true', f'{b.file}:{b.line}')
    run.count('document_parameters', nparam)


def provenance(body, t, exf, depth=0):
    """Set of parameter indices a (buffer) operand derives from (flow-insensitive)."""
    out = set()
    for s in walk(t):
        if s[0] == 'arg':
            out.add(s[1])
        elif s[0] == 'var' and depth < 4:
            L = s[1]
            ty = body.local_ty(L)
            if ty.get('s') in ('std::vec::Vec<u8>',):
                # filled by X.write_to_vec(&mut L) or assigned X.to_vec()
                for bb, tt in body.calls():
                    nm = callee_name(tt)
                    if called(nm, 'Value::write_to_vec') and len(tt['args']) == 2:
                        a1 = exf.operand(tt['args'][1])
                        if any(x[0] == 'var' and x[1] == L for x in walk(a1)):
                            out |= provenance(body, exf.operand(tt['args'][0]), exf, depth + 1)
                    if called(nm, 'Value::to_vec') and tt['dest']['local'] == L:
                        out |= provenance(body, exf.operand(tt['args'][0]), exf, depth + 1)
                # or returned by a crate helper that converts one document (`to_jsonb(value)?`)
                for d in defs(body).get(L, []):
                    if d[0] == 'stmt' and d[3] is not None:
                        out |= provenance(body, exf.rvalue(d[3]), exf, depth + 1)
                    elif d[0] == 'call' and d[2]['callee'].get('resolved_local'):
                        for a in d[2]['args']:
                            out |= provenance(body, exf.operand(a), exf, depth + 1)
            else:
                for d in defs(body).get(L, []):
                    if d[0] == 'stmt' and d[3] is not None:
                        out |= provenance(body, exf.rvalue(d[3]), exf, depth + 1)
                    elif d[0] == 'call':
                        for a in d[2]['args']:
                            out |= provenance(body, exf.operand(a), exf, depth + 1)
    return out


def r11_3(ctx, run, rule='R11.3', only=None):
    """Cores receive the documents in the order of the public parameters."""
    f = ctx.facts
    ds = dispatchers(ctx)
    n = 0
    for p, params in ds.items():
        if len(params) < 2 or (only is not None and p not in only):
            continue
        b = f.bodies[p]
        exf = Expr(b)
        for bb, t in b.calls():
            c = t['callee']
            local = c.get('resolved') if c.get('resolved_local') else (c.get('written') if c.get('local') else None)
            if not local or local not in f.bodies:
                continue
            provs = []
            for i, a in enumerate(t['args']):
                pr = provenance(b, exf.operand(a), exf) & set(params)
                if pr:
                    provs.append((i, pr))
            if len(provs) < 2:
                continue
            n += 1
            seq = [min(pr) for _, pr in provs]
            mixed = [pr for _, pr in provs if len(pr) > 1]
            d = f'call[{local.split("::")[-1]}]'
            loc = f"{t.get('file')}:{t.get('line')}"
            if mixed:
                run.undecided(rule, p, d, f'an argument derives from several document parameters {mixed}', loc)
            elif seq != sorted(seq):
                names = f.fns[p]['params']
                run.violation(rule, p, d, f'the documents are handed to `{local}` in the order {[names[k - 1] for k in seq]}, not in the order of the public parameters: '
                              'the mixed text/JSONB call computes the function on swapped arguments', loc)
            else:
                run.proved(rule, p, d, 'documents passed in parameter order', loc)
    if only is None:
        run.floor(rule, 'calls passing two or more documents to a core', n, 15)


# ------------------------------------------------------------------ the sniff accepts exactly the JSONB prefix bytes

def sniff_table(ctx, run, rule='R10.10', floor=1):
    """Every function of the crate that answers "is this JSONB?" from the first byte of a byte string is evaluated for all 256 values of
    that byte (and for the empty string): it must answer true exactly for ARRAY_PREFIX, OBJECT_PREFIX and SCALAR_PREFIX.  A sniff that
    tests only some bits of the byte also answers true for the first bytes of JSON text (digits, `-`, `"`), which then reaches the
    binary decoder."""
    from enumeval import first_byte_table
    f = ctx.facts
    pre = _prefix_bytes()
    if not pre:
        run.undecided(rule, 'constants', 'sniff', 'prefix constants not found (anchor lost)')
        return
    n = 0
    for p, b in sorted(f.bodies.items()):
        if b.kind == 'Promoted' or str(b.local_ty(0).get('s')) != 'bool' or '::{closure' in p:
            continue
        if not p.startswith(('functions::', 'de::', 'lazy_value::', 'util::', 'parser::')):
            continue
        tab = first_byte_table(f, p)
        if tab is None:
            continue
        vals, empty = tab
        if not (vals & pre) or len(vals) > 200:
            continue          # not a JSONB sniff (a digit / whitespace test ...)
        n += 1
        loc = f'{b.file}:{b.line}'
        extra = sorted(vals - pre)
        missing = sorted(pre - vals)
        if not extra and not missing and not empty:
            run.proved(rule, p, 'sniff', f'true exactly for first bytes {sorted(hex(x) for x in pre)}, false for the empty string (evaluated for all 256 byte values)', loc)
        elif extra:
            shown = ', '.join(repr(chr(x)) if 32 <= x < 127 else hex(x) for x in extra[:10])
            run.violation(rule, p, 'sniff', f'answers "JSONB" for {len(extra)} first-byte value(s) that are not prefix bytes ({shown}{" ..." if len(extra) > 10 else ""}): JSON text starting with one of '
                          'them is handed to the binary decoder', loc)
        else:
            run.undecided(rule, p, 'sniff', f'answers "JSONB" only for {sorted(hex(x) for x in vals)}{" and for the empty string" if empty else ""}: a narrower sniff than the three prefixes; what the '
                          'callers do with the other documents is not decided here', loc)
    run.floor(rule, 'first-byte sniff functions evaluated', n, floor)


# ------------------------------------------------------------------ R11.7 the text parser is applied only where the sniff said "not JSONB"

def false_edges_of_sniff(body, ex, k):
    """Edges taken when is_jsonb(param k) returned false (bool switches and tuple matches on sniff results; inline first-byte switches)."""
    t_edges, n = true_edges_of_sniff(body, ex, k)
    t_set = set(t_edges)
    out = []
    # every switch that contributed a true edge: its other targets are the false edges
    for b in body.blocks:
        t = b['term']
        if t['k'] != 'switch':
            continue
        tg = [x for _, x in t['targets']] + [t['otherwise']]
        mine = [x for x in tg if (b['id'], x) in t_set]
        if mine:
            out.extend((b['id'], x) for x in tg if x not in mine and x is not None)
    return out, n


def r11_7(ctx, run, rule='R11.7', only=None):
    """In a function that sniffs a document argument with is_jsonb, the text parser is applied to that argument only on paths on which the
    sniff answered "not JSONB": `parse_value(x)` in the arm where `is_jsonb(x)` is known to hold parses binary bytes as text, fails, and
    the function answers as if the argument were invalid text."""
    f = ctx.facts
    ds = dispatchers(ctx)
    n = 0
    for p, params in sorted(ds.items()):
        if only is not None and p not in only:
            continue
        b = f.bodies[p]
        ex = Expr(b)
        for k in params:
            f_edges, nsniff = false_edges_of_sniff(b, ex, k)
            if not nsniff or not f_edges:
                continue
            # blocks reachable from the entry without ever taking a "not JSONB" edge
            not_text = reachable_without(b, f_edges)
            bad = []
            for bb, t in b.calls():
                if not called(callee_name(t), 'parser::parse_value', 'parser::parse_lazy_value'):
                    continue
                if not any(uses_param(ex.operand(a), k) for a in t['args']):
                    continue
                n += 1
                if bb in not_text:
                    bad.append(t)
            name = (f.fns[p]['params'][k - 1] if k - 1 < len(f.fns[p]['params']) else f'#{k}') or f'#{k}'
            if bad:
                t = bad[0]
                run.violation(rule, p, f'text-parse[{name}]', f'`{name}` is handed to the text parser on a path on which is_jsonb({name}) did not answer false ({len(bad)} call site(s)): where the sniff said '
                              'JSONB the bytes are binary, the parse fails and the argument is treated as invalid text', f"{t.get('file')}:{t.get('line')}")
            elif n:
                run.proved(rule, p, f'text-parse[{name}]', f'parse_value({name}) only behind is_jsonb({name}) == false', f'{b.file}:{b.line}')
    run.count('text_parse_sites', n)
