"""Thorough tier, part 2: exercise the check of one property against the committed corpora, on scratch copies of
/repo's current working tree (never in /repo):

  * every seeded change / reverted fix / hand-made mutant that this check is recorded to report (seeded/RESULTS.json)
    must still be reported  — the rule instances have not gone vacuous;
  * every behaviour-preserving change written against this property (benign/<id>-R*/patch.diff) must stay quiet.

A patch that does not apply to the current tree is skipped (the tree has moved on).  Mismatches are printed as
SELFTEST-WARNING lines and recorded in the evidence; they never change the verdict on the property itself."""
import json, os, shutil, subprocess, sys, tempfile, glob

VERIF = os.path.dirname(os.path.dirname(os.path.abspath(__file__)))


def corpus(pid):
    items = []
    p = os.path.join(VERIF, 'seeded', 'RESULTS.json')
    if os.path.exists(p):
        res = json.load(open(p))
        for name, r in sorted(res.items()):
            if pid in r.get('fired', {}):
                for cand in (os.path.join(VERIF, 'seeded', name, 'patch.diff'), os.path.join(VERIF, 'selftest', 'reverts', name + '.diff'),
                             os.path.join(VERIF, 'selftest', 'mutants', name + '.diff')):
                    if os.path.exists(cand):
                        items.append((name, cand, True))
                        break
    for d in sorted(glob.glob(os.path.join(VERIF, 'benign', pid + '-*'))):
        items.append((os.path.basename(d), os.path.join(d, 'patch.diff'), False))
    return items


def run(pid, repo, limit=None):
    items = corpus(pid)
    if limit:
        items = items[:limit]
    out = {'expected_alarm': 0, 'alarm_ok': 0, 'expected_quiet': 0, 'quiet_ok': 0, 'skipped': [], 'mismatches': []}
    if not items:
        return out
    tmp = tempfile.mkdtemp(prefix='verif-selftest-')
    try:
        wt = os.path.join(tmp, 'repo')
        subprocess.run(['rsync', '-a', '--exclude', 'target', '--exclude', '.git', repo.rstrip('/') + '/', wt + '/'], check=True)
        env = dict(os.environ, VERIF_REPO=wt, VERIF_EVIDENCE_DIR=os.path.join(tmp, 'ev'), VERIF_TIER='quick', VERIF_TARGET_TAG='-selftest')
        env.pop('VERIF_RECORD_SITES', None)
        for name, patch, want_alarm in items:
            r = subprocess.run(['git', 'apply', '--unsafe-paths', '--directory', wt, patch], capture_output=True, text=True, cwd=tmp)
            if r.returncode != 0:
                r = subprocess.run(['patch', '-p1', '-s', '--dry-run', '-i', patch], capture_output=True, text=True, cwd=wt)
                if r.returncode == 0:
                    subprocess.run(['patch', '-p1', '-s', '-i', patch], capture_output=True, text=True, cwd=wt)
                else:
                    out['skipped'].append(name)
                    continue
            try:
                o = subprocess.run([os.path.join(VERIF, 'check'), pid, '--tier', 'quick'], capture_output=True, text=True, cwd=VERIF, env=env)
                alarm = o.returncode == 1
                if o.returncode not in (0, 1):
                    out['mismatches'].append({'patch': name, 'problem': f'check exited {o.returncode}: {o.stderr.strip()[-200:]}'})
                elif want_alarm:
                    out['expected_alarm'] += 1
                    if alarm:
                        out['alarm_ok'] += 1
                    else:
                        out['mismatches'].append({'patch': name, 'problem': 'a change recorded as reported by this check is no longer reported'})
                else:
                    out['expected_quiet'] += 1
                    if not alarm:
                        out['quiet_ok'] += 1
                    else:
                        rules = sorted({l.split('rule=')[1].split()[0] for l in o.stdout.splitlines() if 'rule=' in l})
                        out['mismatches'].append({'patch': name, 'problem': f'a behaviour-preserving change raises an alarm ({rules})'})
            finally:
                subprocess.run(['patch', '-p1', '-s', '-R', '-i', patch], capture_output=True, text=True, cwd=wt)
    finally:
        shutil.rmtree(tmp, ignore_errors=True)
        shutil.rmtree(os.path.join(VERIF, '.cache', 'target-default-selftest'), ignore_errors=True)
    return out
