// mirfacts — rustc_private driver that dumps type-checked MIR facts of the `jsonb`
// crate as one JSON file ($MIRFACTS_OUT).  Used as RUSTC_WORKSPACE_WRAPPER under
// `cargo +nightly check`.  No dependencies.  See /verif/DESIGN.md §2.1.
#![feature(rustc_private)]
#![allow(clippy::all)]

extern crate rustc_abi;
extern crate rustc_driver;
extern crate rustc_hir;
extern crate rustc_interface;
extern crate rustc_middle;
extern crate rustc_span;

use rustc_driver::Compilation;
use rustc_hir::def::DefKind;
use rustc_hir::def_id::{DefId, LocalDefId};
use rustc_middle::mir::{
    self, AggregateKind, BinOp, Body, BorrowKind, CastKind, Const, ConstValue, Operand, Place,
    ProjectionElem, Rvalue, StatementKind, TerminatorKind, UnOp,
};
use rustc_middle::ty::{self, Ty, TyCtxt, TyKind};
use rustc_span::Span;
use std::fmt::Write as _;

struct Cb;

fn esc(s: &str) -> String {
    let mut o = String::with_capacity(s.len() + 2);
    o.push('"');
    for c in s.chars() {
        match c {
            '"' => o.push_str("\\\""),
            '\\' => o.push_str("\\\\"),
            '\n' => o.push_str("\\n"),
            '\r' => o.push_str("\\r"),
            '\t' => o.push_str("\\t"),
            c if (c as u32) < 0x20 => {
                let _ = write!(o, "\\u{:04x}", c as u32);
            }
            c => o.push(c),
        }
    }
    o.push('"');
    o
}

struct Cx<'tcx> {
    tcx: TyCtxt<'tcx>,
}

impl<'tcx> Cx<'tcx> {
    fn path(&self, did: DefId) -> String {
        self.tcx.def_path_str(did)
    }

    fn span_json(&self, span: Span) -> String {
        let sm = self.tcx.sess.source_map();
        let exp = span.from_expansion();
        let mut macs: Vec<String> = Vec::new();
        if exp {
            for ed in span.macro_backtrace() {
                if let rustc_span::ExpnKind::Macro(_, name) = ed.kind {
                    macs.push(name.to_string());
                }
            }
        }
        let cs = span.source_callsite();
        let loc = sm.lookup_char_pos(cs.lo());
        let file = format!("{}", loc.file.name.prefer_remapped_unconditionally());
        let file = match file.find("/src/") {
            Some(_) if file.starts_with('/') => {
                // strip workspace prefix for local files
                let cwd = std::env::current_dir().map(|p| p.display().to_string()).unwrap_or_default();
                file.strip_prefix(&format!("{}/", cwd)).map(|s| s.to_string()).unwrap_or(file)
            }
            _ => file,
        };
        let mut s = format!("\"file\":{},\"line\":{},\"col\":{}", esc(&file), loc.line, loc.col.0 + 1);
        if exp {
            s.push_str(",\"exp\":true,\"macs\":[");
            for (i, m) in macs.iter().enumerate() {
                if i > 0 {
                    s.push(',');
                }
                s.push_str(&esc(m));
            }
            s.push(']');
        }
        s
    }

    fn ty_json(&self, t: Ty<'tcx>) -> String {
        let s = esc(&t.to_string());
        match t.kind() {
            TyKind::Bool => format!("{{\"s\":{},\"k\":\"bool\"}}", s),
            TyKind::Char => format!("{{\"s\":{},\"k\":\"char\"}}", s),
            TyKind::Int(i) => {
                let w = i.bit_width().unwrap_or(64);
                format!("{{\"s\":{},\"k\":\"int\",\"w\":{},\"signed\":true}}", s, w)
            }
            TyKind::Uint(u) => {
                let w = u.bit_width().unwrap_or(64);
                format!("{{\"s\":{},\"k\":\"int\",\"w\":{},\"signed\":false}}", s, w)
            }
            TyKind::Float(_) => format!("{{\"s\":{},\"k\":\"float\"}}", s),
            TyKind::Adt(def, args) => {
                let mut a = String::new();
                for (i, ga) in args.iter().enumerate() {
                    if i > 0 {
                        a.push(',');
                    }
                    match ga.kind() {
                        ty::GenericArgKind::Type(t2) => a.push_str(&self.ty_json(t2)),
                        _ => a.push_str(&format!("{{\"s\":{},\"k\":\"other\"}}", esc(&ga.to_string()))),
                    }
                }
                format!("{{\"s\":{},\"k\":\"adt\",\"path\":{},\"args\":[{}]}}", s, esc(&self.path(def.did())), a)
            }
            TyKind::Ref(_, inner, m) => format!(
                "{{\"s\":{},\"k\":\"ref\",\"mut\":{},\"inner\":{}}}",
                s,
                m.is_mut(),
                self.ty_json(*inner)
            ),
            TyKind::RawPtr(inner, m) => format!(
                "{{\"s\":{},\"k\":\"ptr\",\"mut\":{},\"inner\":{}}}",
                s,
                m.is_mut(),
                self.ty_json(*inner)
            ),
            TyKind::Slice(inner) => format!("{{\"s\":{},\"k\":\"slice\",\"inner\":{}}}", s, self.ty_json(*inner)),
            TyKind::Array(inner, _) => format!("{{\"s\":{},\"k\":\"array\",\"inner\":{}}}", s, self.ty_json(*inner)),
            TyKind::Str => format!("{{\"s\":{},\"k\":\"str\"}}", s),
            TyKind::Tuple(ts) => {
                let mut a = String::new();
                for (i, t2) in ts.iter().enumerate() {
                    if i > 0 {
                        a.push(',');
                    }
                    a.push_str(&self.ty_json(t2));
                }
                format!("{{\"s\":{},\"k\":\"tuple\",\"args\":[{}]}}", s, a)
            }
            TyKind::FnDef(did, _) => format!("{{\"s\":{},\"k\":\"fndef\",\"path\":{}}}", s, esc(&self.path(*did))),
            TyKind::Closure(did, _) => format!("{{\"s\":{},\"k\":\"closure\",\"path\":{}}}", s, esc(&self.path(*did))),
            TyKind::Param(_) => format!("{{\"s\":{},\"k\":\"param\"}}", s),
            _ => format!("{{\"s\":{},\"k\":\"other\"}}", s),
        }
    }

    fn place_json(&self, body: &Body<'tcx>, p: &Place<'tcx>) -> String {
        let mut s = format!("{{\"local\":{}", p.local.as_usize());
        if !p.projection.is_empty() {
            s.push_str(",\"proj\":[");
            // compute field names via PlaceTy walk
            let mut pty = mir::PlaceTy::from_ty(body.local_decls[p.local].ty);
            for (i, e) in p.projection.iter().enumerate() {
                if i > 0 {
                    s.push(',');
                }
                match e {
                    ProjectionElem::Deref => s.push_str("{\"k\":\"deref\"}"),
                    ProjectionElem::Field(f, _) => {
                        let mut name = String::new();
                        if let TyKind::Adt(def, _) = pty.ty.kind() {
                            let vidx = pty.variant_index.unwrap_or(rustc_abi::FIRST_VARIANT);
                            if def.is_enum() || def.is_struct() || def.is_union() {
                                if vidx.as_usize() < def.variants().len() {
                                    let v = def.variant(vidx);
                                    if f.as_usize() < v.fields.len() {
                                        name = v.fields[f].name.to_string();
                                    }
                                }
                            }
                        }
                        let _ = write!(s, "{{\"k\":\"field\",\"i\":{},\"name\":{}}}", f.as_usize(), esc(&name));
                    }
                    ProjectionElem::Index(l) => {
                        let _ = write!(s, "{{\"k\":\"index\",\"local\":{}}}", l.as_usize());
                    }
                    ProjectionElem::ConstantIndex { offset, min_length, from_end } => {
                        let _ = write!(
                            s,
                            "{{\"k\":\"constindex\",\"offset\":{},\"min\":{},\"from_end\":{}}}",
                            offset, min_length, from_end
                        );
                    }
                    ProjectionElem::Subslice { from, to, from_end } => {
                        let _ = write!(s, "{{\"k\":\"subslice\",\"from\":{},\"to\":{},\"from_end\":{}}}", from, to, from_end);
                    }
                    ProjectionElem::Downcast(name, v) => {
                        let n = name.map(|x| x.to_string()).unwrap_or_default();
                        let _ = write!(s, "{{\"k\":\"downcast\",\"v\":{},\"name\":{}}}", v.as_usize(), esc(&n));
                    }
                    _ => s.push_str("{\"k\":\"other\"}"),
                }
                pty = pty.projection_ty(self.tcx, e);
            }
            s.push(']');
        }
        s.push('}');
        s
    }

    fn bytes_of_alloc(&self, alloc_id: mir::interpret::AllocId, off: u64, len: u64) -> Option<Vec<u8>> {
        match self.tcx.try_get_global_alloc(alloc_id)? {
            mir::interpret::GlobalAlloc::Memory(a) => {
                let a = a.inner();
                let sz = a.size().bytes();
                if off + len > sz {
                    return None;
                }
                Some(a.inspect_with_uninit_and_ptr_outside_interpreter(off as usize..(off + len) as usize).to_vec())
            }
            _ => None,
        }
    }

    fn const_json(&self, c: &Const<'tcx>, env: ty::TypingEnv<'tcx>) -> String {
        let ty = c.ty();
        let mut s = format!("{{\"k\":\"const\",\"ty\":{}", self.ty_json(ty));
        // named constant?
        if let Const::Unevaluated(u, _) = c {
            if let Some(p) = u.promoted {
                let _ = write!(s, ",\"promoted\":{}", p.as_usize());
            } else {
                let _ = write!(s, ",\"named\":{}", esc(&self.path(u.def)));
            }
        }
        if let TyKind::FnDef(did, args) = ty.kind() {
            let _ = write!(s, ",\"fn\":{}", esc(&self.path(*did)));
            let _ = write!(s, ",\"fnfull\":{}", esc(&self.tcx.def_path_str_with_args(*did, args)));
        }
        // value
        let val = match c {
            Const::Ty(_, _) => c.try_to_scalar_int().map(|si| ConstValue::Scalar(mir::interpret::Scalar::Int(si))),
            _ => c.eval(self.tcx, env, rustc_span::DUMMY_SP).ok(),
        };
        if let Some(v) = val {
            self.val_json(&mut s, v, ty);
        }
        s.push('}');
        s
    }

    fn val_json(&self, s: &mut String, v: ConstValue, ty: Ty<'tcx>) {
        match (v, ty.kind()) {
            (ConstValue::Scalar(mir::interpret::Scalar::Int(si)), TyKind::Bool) => {
                let _ = write!(s, ",\"val\":{}", if si.is_null() { "false" } else { "true" });
            }
            (ConstValue::Scalar(mir::interpret::Scalar::Int(si)), TyKind::Int(_)) => {
                let size = si.size();
                let _ = write!(s, ",\"val\":{}", si.to_int(size));
            }
            (ConstValue::Scalar(mir::interpret::Scalar::Int(si)), TyKind::Uint(_)) => {
                let size = si.size();
                let _ = write!(s, ",\"val\":{}", si.to_uint(size));
            }
            (ConstValue::Scalar(mir::interpret::Scalar::Int(si)), TyKind::Char) => {
                let size = si.size();
                let _ = write!(s, ",\"val\":{},\"char\":true", si.to_uint(size));
            }
            (ConstValue::Scalar(mir::interpret::Scalar::Int(si)), TyKind::Float(_)) => {
                let size = si.size();
                let _ = write!(s, ",\"bits\":\"{}\"", si.to_uint(size));
            }
            (ConstValue::Scalar(mir::interpret::Scalar::Int(si)), TyKind::Adt(..)) => {
                let size = si.size();
                let _ = write!(s, ",\"val\":{}", si.to_uint(size));
            }
            (ConstValue::Slice { .. }, TyKind::Ref(_, inner, _)) if matches!(inner.kind(), TyKind::Str | TyKind::Slice(_)) => {
                let is_u8_slice = match inner.kind() {
                    TyKind::Slice(e) => matches!(e.kind(), TyKind::Uint(ty::UintTy::U8)),
                    _ => true,
                };
                if is_u8_slice {
                    if let Some(b) = v.try_get_slice_bytes_for_diagnostics(self.tcx) {
                        self.bytes_json(s, b, matches!(inner.kind(), TyKind::Str));
                    }
                }
            }
            (ConstValue::Indirect { .. }, TyKind::Ref(_, inner, _)) if matches!(inner.kind(), TyKind::Str) => {
                if let Some(b) = v.try_get_slice_bytes_for_diagnostics(self.tcx) {
                    self.bytes_json(s, b, true);
                }
            }
            (ConstValue::Scalar(mir::interpret::Scalar::Ptr(ptr, _)), TyKind::Ref(_, inner, _)) => {
                // reference to a static item: name it and dump its initializer if it is an array of scalars
                let (prov0, off0) = ptr.into_raw_parts();
                if let Some(mir::interpret::GlobalAlloc::Static(sdid)) = self.tcx.try_get_global_alloc(prov0.alloc_id()) {
                    let _ = write!(s, ",\"static\":{}", esc(&self.path(sdid)));
                    if let (TyKind::Array(e, n), Ok(alloc)) = (inner.kind(), self.tcx.eval_static_initializer(sdid)) {
                        if let (TyKind::Uint(ty::UintTy::U8), Some(n)) = (e.kind(), n.try_to_target_usize(self.tcx)) {
                            let a = alloc.inner();
                            let o = off0.bytes() as usize;
                            if (o as u64) + n <= a.size().bytes() {
                                let b = a.inspect_with_uninit_and_ptr_outside_interpreter(o..o + n as usize).to_vec();
                                self.bytes_json(s, &b, false);
                            }
                        }
                    }
                    return;
                }
                // &[u8; N] / &[T; N] of scalars
                if let TyKind::Array(e, n) = inner.kind() {
                    if let Some(n) = n.try_to_target_usize(self.tcx) {
                        let esz: u64 = match e.kind() {
                            TyKind::Uint(u) => u.bit_width().unwrap_or(64) / 8,
                            TyKind::Int(u) => u.bit_width().unwrap_or(64) / 8,
                            TyKind::Char => 4,
                            _ => 0,
                        };
                        if esz > 0 {
                            let (prov, off) = ptr.into_raw_parts();
                            if let Some(b) = self.bytes_of_alloc(prov.alloc_id(), off.bytes(), n * esz) {
                                if esz == 1 {
                                    self.bytes_json(s, &b, false);
                                } else {
                                    s.push_str(",\"elems\":[");
                                    for i in 0..n as usize {
                                        if i > 0 {
                                            s.push(',');
                                        }
                                        let mut x: u128 = 0;
                                        for j in 0..esz as usize {
                                            x |= (b[i * esz as usize + j] as u128) << (8 * j);
                                        }
                                        let _ = write!(s, "{}", x);
                                    }
                                    s.push(']');
                                }
                            }
                        }
                    }
                }
            }
            (ConstValue::Indirect { alloc_id, offset }, TyKind::Array(e, n)) => {
                if let (TyKind::Uint(ty::UintTy::U8), Some(n)) = (e.kind(), n.try_to_target_usize(self.tcx)) {
                    if let Some(b) = self.bytes_of_alloc(alloc_id, offset.bytes(), n) {
                        self.bytes_json(s, &b, false);
                    }
                }
            }
            (ConstValue::ZeroSized, _) => {}
            _ => {}
        }
    }

    fn bytes_json(&self, s: &mut String, b: &[u8], is_str: bool) {
        if is_str {
            if let Ok(st) = std::str::from_utf8(b) {
                let _ = write!(s, ",\"str\":{}", esc(st));
            }
        }
        s.push_str(",\"bytes\":[");
        for (i, x) in b.iter().enumerate() {
            if i > 0 {
                s.push(',');
            }
            let _ = write!(s, "{}", x);
        }
        s.push(']');
    }

    fn op_json(&self, body: &Body<'tcx>, o: &Operand<'tcx>, env: ty::TypingEnv<'tcx>) -> String {
        match o {
            Operand::Copy(p) => format!("{{\"k\":\"copy\",\"place\":{}}}", self.place_json(body, p)),
            Operand::Move(p) => format!("{{\"k\":\"move\",\"place\":{}}}", self.place_json(body, p)),
            Operand::Constant(c) => self.const_json(&c.const_, env),
            _ => format!("{{\"k\":\"other\",\"s\":{}}}", esc(&format!("{:?}", o))),
        }
    }

    fn rv_json(&self, body: &Body<'tcx>, rv: &Rvalue<'tcx>, env: ty::TypingEnv<'tcx>) -> String {
        match rv {
            Rvalue::Use(o, _) => format!("{{\"k\":\"use\",\"op\":{}}}", self.op_json(body, o, env)),
            Rvalue::CopyForDeref(p) => format!(
                "{{\"k\":\"use\",\"op\":{{\"k\":\"copy\",\"place\":{}}}}}",
                self.place_json(body, p)
            ),
            Rvalue::Ref(_, bk, p) => {
                let m = matches!(bk, BorrowKind::Mut { .. });
                format!("{{\"k\":\"ref\",\"mut\":{},\"place\":{}}}", m, self.place_json(body, p))
            }
            Rvalue::RawPtr(k, p) => format!(
                "{{\"k\":\"rawptr\",\"mut\":{},\"place\":{}}}",
                matches!(k, mir::RawPtrKind::Mut),
                self.place_json(body, p)
            ),
            Rvalue::Cast(ck, o, t) => {
                let kind = match ck {
                    CastKind::IntToInt => "IntToInt".to_string(),
                    CastKind::IntToFloat => "IntToFloat".to_string(),
                    CastKind::FloatToInt => "FloatToInt".to_string(),
                    CastKind::FloatToFloat => "FloatToFloat".to_string(),
                    CastKind::Transmute => "Transmute".to_string(),
                    CastKind::PtrToPtr => "PtrToPtr".to_string(),
                    CastKind::PointerCoercion(pc, _) => format!("PointerCoercion({:?})", pc),
                    other => format!("{:?}", other),
                };
                format!(
                    "{{\"k\":\"cast\",\"kind\":{},\"op\":{},\"to\":{}}}",
                    esc(&kind),
                    self.op_json(body, o, env),
                    self.ty_json(*t)
                )
            }
            Rvalue::BinaryOp(op, ab) => {
                let (a, b) = &**ab;
                let (name, checked) = match op {
                    BinOp::AddWithOverflow => ("Add".to_string(), true),
                    BinOp::SubWithOverflow => ("Sub".to_string(), true),
                    BinOp::MulWithOverflow => ("Mul".to_string(), true),
                    other => (format!("{:?}", other), false),
                };
                format!(
                    "{{\"k\":\"bin\",\"op\":{},\"checked\":{},\"a\":{},\"b\":{}}}",
                    esc(&name),
                    checked,
                    self.op_json(body, a, env),
                    self.op_json(body, b, env)
                )
            }
            Rvalue::UnaryOp(op, a) => {
                let name = match op {
                    UnOp::Not => "Not",
                    UnOp::Neg => "Neg",
                    UnOp::PtrMetadata => "PtrMetadata",
                };
                format!("{{\"k\":\"un\",\"op\":\"{}\",\"a\":{}}}", name, self.op_json(body, a, env))
            }
            Rvalue::Discriminant(p) => format!("{{\"k\":\"discr\",\"place\":{}}}", self.place_json(body, p)),
            Rvalue::Aggregate(ak, ops) => {
                let mut o = String::new();
                for (i, x) in ops.iter().enumerate() {
                    if i > 0 {
                        o.push(',');
                    }
                    o.push_str(&self.op_json(body, x, env));
                }
                let head = match &**ak {
                    AggregateKind::Array(_) => "\"agg\":\"array\"".to_string(),
                    AggregateKind::Tuple => "\"agg\":\"tuple\"".to_string(),
                    AggregateKind::Adt(did, v, _, _, _) => {
                        let def = self.tcx.adt_def(*did);
                        let vname = def.variant(*v).name.to_string();
                        format!(
                            "\"agg\":\"adt\",\"adt\":{},\"variant\":{},\"vname\":{}",
                            esc(&self.path(*did)),
                            v.as_usize(),
                            esc(&vname)
                        )
                    }
                    AggregateKind::Closure(did, _) => format!("\"agg\":\"closure\",\"closure\":{}", esc(&self.path(*did))),
                    _ => "\"agg\":\"other\"".to_string(),
                };
                format!("{{\"k\":\"agg\",{},\"ops\":[{}]}}", head, o)
            }
            Rvalue::Repeat(o, n) => format!(
                "{{\"k\":\"repeat\",\"op\":{},\"n\":{}}}",
                self.op_json(body, o, env),
                esc(&n.to_string())
            ),
            other => format!("{{\"k\":\"other\",\"s\":{}}}", esc(&format!("{:?}", other))),
        }
    }

    fn body_json(&self, out: &mut String, key: &str, did: DefId, body: &Body<'tcx>, kind: &str, vis: &str) {
        let tcx = self.tcx;
        let env = ty::TypingEnv::post_analysis(tcx, did);
        let _ = write!(out, "{{\"path\":{},\"kind\":\"{}\",\"vis\":\"{}\",{}", esc(key), kind, vis, self.span_json(body.span));
        let _ = write!(out, ",\"argc\":{}", body.arg_count);
        // locals
        let mut names: Vec<Option<String>> = vec![None; body.local_decls.len()];
        let mut dbg = String::new();
        for (i, vdi) in body.var_debug_info.iter().enumerate() {
            if i > 0 {
                dbg.push(',');
            }
            match &vdi.value {
                mir::VarDebugInfoContents::Place(p) => {
                    if p.projection.is_empty() {
                        names[p.local.as_usize()] = Some(vdi.name.to_string());
                    }
                    let _ = write!(dbg, "{{\"name\":{},\"place\":{}}}", esc(&vdi.name.to_string()), self.place_json(body, p));
                }
                mir::VarDebugInfoContents::Const(c) => {
                    let _ = write!(dbg, "{{\"name\":{},\"const\":{}}}", esc(&vdi.name.to_string()), self.const_json(&c.const_, env));
                }
            }
        }
        out.push_str(",\"locals\":[");
        for (i, (l, d)) in body.local_decls.iter_enumerated().enumerate() {
            if i > 0 {
                out.push(',');
            }
            let _ = write!(out, "{{\"id\":{},\"ty\":{}", l.as_usize(), self.ty_json(d.ty));
            if let Some(n) = &names[l.as_usize()] {
                let _ = write!(out, ",\"name\":{}", esc(n));
            }
            out.push('}');
        }
        let _ = write!(out, "],\"debug\":[{}]", dbg);
        out.push_str(",\"blocks\":[");
        for (bi, (bb, data)) in body.basic_blocks.iter_enumerated().enumerate() {
            if bi > 0 {
                out.push(',');
            }
            let _ = write!(out, "{{\"id\":{},\"cleanup\":{},\"stmts\":[", bb.as_usize(), data.is_cleanup);
            let mut first = true;
            for st in &data.statements {
                let js = match &st.kind {
                    StatementKind::Assign(b) => {
                        let (p, rv) = &**b;
                        Some(format!(
                            "{{\"k\":\"assign\",\"place\":{},\"rv\":{},{}}}",
                            self.place_json(body, p),
                            self.rv_json(body, rv, env),
                            self.span_json(st.source_info.span)
                        ))
                    }
                    StatementKind::SetDiscriminant { place, variant_index } => Some(format!(
                        "{{\"k\":\"setdiscr\",\"place\":{},\"variant\":{},{}}}",
                        self.place_json(body, place),
                        variant_index.as_usize(),
                        self.span_json(st.source_info.span)
                    )),
                    _ => None,
                };
                if let Some(js) = js {
                    if !first {
                        out.push(',');
                    }
                    first = false;
                    out.push_str(&js);
                }
            }
            out.push_str("],\"term\":");
            let term = data.terminator();
            let sp = self.span_json(term.source_info.span);
            match &term.kind {
                TerminatorKind::Goto { target } => {
                    let _ = write!(out, "{{\"k\":\"goto\",\"target\":{},{}}}", target.as_usize(), sp);
                }
                TerminatorKind::SwitchInt { discr, targets } => {
                    let mut t = String::new();
                    for (i, (v, b)) in targets.iter().enumerate() {
                        if i > 0 {
                            t.push(',');
                        }
                        let _ = write!(t, "[{},{}]", v, b.as_usize());
                    }
                    let dty = discr.ty(&body.local_decls, tcx);
                    let _ = write!(
                        out,
                        "{{\"k\":\"switch\",\"discr\":{},\"dty\":{},\"targets\":[{}],\"otherwise\":{},{}}}",
                        self.op_json(body, discr, env),
                        self.ty_json(dty),
                        t,
                        targets.otherwise().as_usize(),
                        sp
                    );
                }
                TerminatorKind::Return => {
                    let _ = write!(out, "{{\"k\":\"return\",{}}}", sp);
                }
                TerminatorKind::Unreachable => {
                    let _ = write!(out, "{{\"k\":\"unreachable\",{}}}", sp);
                }
                TerminatorKind::UnwindResume => {
                    let _ = write!(out, "{{\"k\":\"resume\",{}}}", sp);
                }
                TerminatorKind::Drop { place, target, .. } => {
                    let _ = write!(
                        out,
                        "{{\"k\":\"drop\",\"place\":{},\"target\":{},{}}}",
                        self.place_json(body, place),
                        target.as_usize(),
                        sp
                    );
                }
                TerminatorKind::Call { func, args, destination, target, fn_span, .. } => {
                    let mut a = String::new();
                    for (i, x) in args.iter().enumerate() {
                        if i > 0 {
                            a.push(',');
                        }
                        a.push_str(&self.op_json(body, &x.node, env));
                    }
                    let mut callee = String::from("{");
                    let fty = func.ty(&body.local_decls, tcx);
                    match fty.kind() {
                        TyKind::FnDef(cdid, cargs) => {
                            let _ = write!(callee, "\"written\":{}", esc(&self.path(*cdid)));
                            let _ = write!(callee, ",\"full\":{}", esc(&tcx.def_path_str_with_args(*cdid, cargs)));
                            let _ = write!(callee, ",\"local\":{}", cdid.is_local());
                            let is_trait = tcx.trait_of_assoc(*cdid).is_some();
                            let _ = write!(callee, ",\"trait_method\":{}", is_trait);
                            // generic type args
                            let mut ga = String::new();
                            let mut firstg = true;
                            for g in cargs.iter() {
                                if let ty::GenericArgKind::Type(t2) = g.kind() {
                                    if !firstg {
                                        ga.push(',');
                                    }
                                    firstg = false;
                                    ga.push_str(&self.ty_json(t2));
                                }
                            }
                            let _ = write!(callee, ",\"targs\":[{}]", ga);
                            if let Ok(Some(inst)) = ty::Instance::try_resolve(tcx, env, *cdid, cargs) {
                                let rd = inst.def_id();
                                let _ = write!(callee, ",\"resolved\":{}", esc(&self.path(rd)));
                                let _ = write!(callee, ",\"resolved_local\":{}", rd.is_local());
                                let shim = !matches!(inst.def, ty::InstanceKind::Item(_));
                                if shim {
                                    let _ = write!(callee, ",\"shim\":{}", esc(&format!("{:?}", inst.def).split('(').next().unwrap_or("").to_string()));
                                }
                            }
                        }
                        _ => {
                            let _ = write!(callee, "\"indirect\":{}", self.op_json(body, func, env));
                            let _ = write!(callee, ",\"fty\":{}", self.ty_json(fty));
                        }
                    }
                    callee.push('}');
                    let tgt = match target {
                        Some(t) => format!("{}", t.as_usize()),
                        None => "null".to_string(),
                    };
                    let fsl = tcx.sess.source_map().lookup_char_pos(fn_span.source_callsite().lo());
                    let _ = write!(
                        out,
                        "{{\"k\":\"call\",\"callee\":{},\"args\":[{}],\"dest\":{},\"target\":{},\"fnline\":{},{}}}",
                        callee,
                        a,
                        self.place_json(body, destination),
                        tgt,
                        fsl.line,
                        sp
                    );
                }
                TerminatorKind::Assert { cond, expected, msg, target, .. } => {
                    use mir::AssertKind::*;
                    let (kind, ops): (String, Vec<&Operand<'tcx>>) = match &**msg {
                        BoundsCheck { len, index } => ("BoundsCheck".into(), vec![len, index]),
                        Overflow(op, a, b) => (format!("Overflow({:?})", op), vec![a, b]),
                        OverflowNeg(a) => ("OverflowNeg".into(), vec![a]),
                        DivisionByZero(a) => ("DivisionByZero".into(), vec![a]),
                        RemainderByZero(a) => ("RemainderByZero".into(), vec![a]),
                        other => (format!("{:?}", other).split(|c| c == '(' || c == ' ' || c == '{').next().unwrap_or("").to_string(), vec![]),
                    };
                    let mut a = String::new();
                    for (i, x) in ops.iter().enumerate() {
                        if i > 0 {
                            a.push(',');
                        }
                        a.push_str(&self.op_json(body, x, env));
                    }
                    let _ = write!(
                        out,
                        "{{\"k\":\"assert\",\"kind\":{},\"cond\":{},\"expected\":{},\"args\":[{}],\"target\":{},{}}}",
                        esc(&kind),
                        self.op_json(body, cond, env),
                        expected,
                        a,
                        target.as_usize(),
                        sp
                    );
                }
                TerminatorKind::FalseEdge { real_target, .. } => {
                    let _ = write!(out, "{{\"k\":\"goto\",\"target\":{},{}}}", real_target.as_usize(), sp);
                }
                TerminatorKind::FalseUnwind { real_target, .. } => {
                    let _ = write!(out, "{{\"k\":\"goto\",\"target\":{},{}}}", real_target.as_usize(), sp);
                }
                other => {
                    let _ = write!(out, "{{\"k\":\"other\",\"s\":{},{}}}", esc(&format!("{:?}", other)), sp);
                }
            }
            out.push('}');
        }
        out.push_str("]}");
    }
}

impl rustc_driver::Callbacks for Cb {
    fn after_analysis<'tcx>(&mut self, _c: &rustc_interface::interface::Compiler, tcx: TyCtxt<'tcx>) -> Compilation {
        let crate_name = tcx.crate_name(rustc_hir::def_id::LOCAL_CRATE).to_string();
        let want = std::env::var("MIRFACTS_CRATE").unwrap_or_else(|_| "jsonb".to_string());
        let outp = match std::env::var("MIRFACTS_OUT") {
            Ok(p) => p,
            Err(_) => return Compilation::Continue,
        };
        if crate_name != want {
            return Compilation::Continue;
        }
        // only the library target (tests/benches also named differently), but be safe:
        let cx = Cx { tcx };
        let mut out = String::with_capacity(64 << 20);
        let _ = write!(
            out,
            "{{\"stamp\":{{\"crate\":{},\"rustc\":{},\"stamp\":{}}}",
            esc(&crate_name),
            esc(&rustc_interface::util::rustc_version_str().unwrap_or("?").to_string()),
            esc(&std::env::var("MIRFACTS_STAMP").unwrap_or_default())
        );

        // items: consts, statics, adts, aliases
        let mut consts = String::new();
        let mut adts = String::new();
        let mut aliases = String::new();
        let mut fns = String::new();
        let items = tcx.hir_crate_items(());
        let mut all_defs: Vec<LocalDefId> = items.definitions().collect();
        all_defs.sort_by_key(|d| tcx.def_path_str(d.to_def_id()));
        for ld in &all_defs {
            let did = ld.to_def_id();
            match tcx.def_kind(did) {
                DefKind::Const { .. } | DefKind::AssocConst { .. } | DefKind::Static { .. } => {
                    let ty = tcx.type_of(did).instantiate_identity().skip_norm_wip();
                    if tcx.generics_of(did).requires_monomorphization(tcx) {
                        continue;
                    }
                    let mut s = format!("{{\"path\":{},\"ty\":{},{}", esc(&cx.path(did)), cx.ty_json(ty), cx.span_json(tcx.def_span(did)));
                    let v = if matches!(tcx.def_kind(did), DefKind::Static { .. }) {
                        None
                    } else {
                        tcx.const_eval_poly(did).ok()
                    };
                    if let Some(v) = v {
                        cx.val_json(&mut s, v, ty);
                    }
                    s.push('}');
                    if !consts.is_empty() {
                        consts.push(',');
                    }
                    consts.push_str(&s);
                }
                DefKind::Struct | DefKind::Enum | DefKind::Union => {
                    let def = tcx.adt_def(did);
                    let mut s = format!(
                        "{{\"path\":{},\"kind\":\"{}\",{},\"variants\":[",
                        esc(&cx.path(did)),
                        if def.is_enum() { "enum" } else { "struct" },
                        cx.span_json(tcx.def_span(did))
                    );
                    for (i, v) in def.variants().iter().enumerate() {
                        if i > 0 {
                            s.push(',');
                        }
                        let _ = write!(s, "{{\"name\":{},\"idx\":{},\"fields\":[", esc(&v.name.to_string()), i);
                        for (j, f) in v.fields.iter().enumerate() {
                            if j > 0 {
                                s.push(',');
                            }
                            let fty = tcx.type_of(f.did).instantiate_identity().skip_norm_wip();
                            let _ = write!(s, "{{\"name\":{},\"ty\":{}}}", esc(&f.name.to_string()), cx.ty_json(fty));
                        }
                        s.push_str("]}");
                    }
                    s.push_str("]}");
                    if !adts.is_empty() {
                        adts.push(',');
                    }
                    adts.push_str(&s);
                }
                DefKind::TyAlias => {
                    let ty = tcx.type_of(did).instantiate_identity().skip_norm_wip();
                    let s = format!("{{\"path\":{},\"expands_to\":{}}}", esc(&cx.path(did)), cx.ty_json(ty));
                    if !aliases.is_empty() {
                        aliases.push(',');
                    }
                    aliases.push_str(&s);
                }
                DefKind::Fn | DefKind::AssocFn => {
                    // signature facts: visibility, whether effectively public
                    let vis = tcx.visibility(did);
                    let eff = tcx.effective_visibilities(()).is_reachable(*ld);
                    let sig = tcx.fn_sig(did).instantiate_identity().skip_norm_wip().skip_binder();
                    let mut ins = String::new();
                    for (i, t) in sig.inputs().iter().enumerate() {
                        if i > 0 {
                            ins.push(',');
                        }
                        ins.push_str(&cx.ty_json(*t));
                    }
                    let mut pn = String::new();
                    for (i, id) in tcx.fn_arg_idents(did).iter().enumerate() {
                        if i > 0 {
                            pn.push(',');
                        }
                        pn.push_str(&esc(&id.map(|x| x.name.to_string()).unwrap_or_default()));
                    }
                    let doc = {
                        let mut d = String::new();
                        for a in tcx.get_all_attrs(did) {
                            if let Some((sym, _)) = a.doc_str_and_fragment_kind() {
                                d.push_str(sym.as_str());
                                d.push('\n');
                            }
                        }
                        d
                    };
                    let s = format!(
                        "{{\"path\":{},\"pub\":{},\"reachable\":{},\"inputs\":[{}],\"params\":[{}],\"output\":{},\"doc\":{},{}}}",
                        esc(&cx.path(did)),
                        vis.is_public(),
                        eff,
                        ins,
                        pn,
                        cx.ty_json(sig.output()),
                        esc(&doc),
                        cx.span_json(tcx.def_span(did))
                    );
                    if !fns.is_empty() {
                        fns.push(',');
                    }
                    fns.push_str(&s);
                }
                _ => {}
            }
        }
        let _ = write!(out, ",\"consts\":[{}],\"adts\":[{}],\"aliases\":[{}],\"fns\":[{}]", consts, adts, aliases, fns);

        // bodies
        out.push_str(",\"bodies\":[");
        let mut owners: Vec<LocalDefId> = tcx.hir_body_owners().collect();
        owners.sort_by_key(|d| tcx.def_path_str(d.to_def_id()));
        let mut first = true;
        for ld in owners {
            let did = ld.to_def_id();
            let kind = match tcx.def_kind(did) {
                DefKind::Fn => "Fn",
                DefKind::AssocFn => "AssocFn",
                DefKind::Closure => "Closure",
                _ => continue,
            };
            let vis = match tcx.def_kind(did) {
                DefKind::Fn | DefKind::AssocFn => {
                    if tcx.visibility(did).is_public() {
                        "pub"
                    } else {
                        "private"
                    }
                }
                _ => "closure",
            };
            let body = tcx.optimized_mir(did);
            if !first {
                out.push(',');
            }
            first = false;
            let key = cx.path(did);
            cx.body_json(&mut out, &key, did, body, kind, vis);
            let proms = tcx.promoted_mir(did);
            for (pi, pb) in proms.iter_enumerated() {
                out.push(',');
                let pkey = format!("{}::{{promoted#{}}}", key, pi.as_usize());
                cx.body_json(&mut out, &pkey, did, pb, "Promoted", "promoted");
            }
        }
        out.push_str("]}");
        let tmp = format!("{}.tmp.{}", outp, std::process::id());
        std::fs::write(&tmp, out).expect("write facts");
        std::fs::rename(&tmp, &outp).expect("rename facts");
        Compilation::Continue
    }
}

fn main() {
    let mut args: Vec<String> = std::env::args().collect();
    // RUSTC_WORKSPACE_WRAPPER: argv[1] is the path of rustc
    if args.len() > 1 && (args[1].ends_with("rustc") || args[1].contains("/rustc")) {
        args.remove(1);
    }
    let mut cb = Cb;
    rustc_driver::run_compiler(&args, &mut cb);
}
