"""Run the mirfacts driver over /repo's current working tree and cache the fact file by source hash."""
import fcntl, glob, hashlib, os, shutil, subprocess, sys, time

VERIF = os.path.dirname(os.path.dirname(os.path.abspath(__file__)))
REPO = os.environ.get('VERIF_REPO', '/repo')
CACHE = os.path.join(VERIF, '.cache')
DRIVER_DIR = os.path.join(VERIF, 'driver')
DRIVER_BIN = os.path.join(DRIVER_DIR, 'target', 'release', 'mirfacts')


def source_hash(repo=REPO):
    h = hashlib.sha256()
    files = []
    for root, dirs, fs in os.walk(os.path.join(repo, 'src')):
        dirs.sort()
        for f in sorted(fs):
            files.append(os.path.join(root, f))
    for f in ('Cargo.toml', 'Cargo.lock', 'README.md', 'CHANGELOG.md'):
        p = os.path.join(repo, f)
        if os.path.exists(p):
            files.append(p)
    for p in files:
        h.update(os.path.relpath(p, repo).encode())
        h.update(b'\0')
        with open(p, 'rb') as fh:
            h.update(fh.read())
        h.update(b'\0')
    # the driver itself is part of the key
    with open(os.path.join(DRIVER_DIR, 'src', 'main.rs'), 'rb') as fh:
        h.update(fh.read())
    return h.hexdigest()[:20]


def nightly_sysroot():
    return subprocess.check_output(['rustc', '+nightly', '--print', 'sysroot'], text=True).strip()


def build_driver():
    if os.path.exists(DRIVER_BIN) and os.path.getmtime(DRIVER_BIN) >= os.path.getmtime(os.path.join(DRIVER_DIR, 'src', 'main.rs')):
        return
    env = dict(os.environ, CARGO_NET_OFFLINE='true')
    env.pop('RUSTC_WORKSPACE_WRAPPER', None)
    env.pop('RUSTFLAGS', None)
    r = subprocess.run(['cargo', 'build', '--release', '--offline'], cwd=DRIVER_DIR, env=env,
                       stdout=subprocess.PIPE, stderr=subprocess.STDOUT, text=True)
    if r.returncode != 0 or not os.path.exists(DRIVER_BIN):
        sys.stderr.write(r.stdout)
        raise SystemExit('mirfacts driver failed to build')


CONFIGS = {
    'default': ['--lib'],
    'no-default': ['--lib', '--no-default-features'],
}


def get_facts(config='default', repo=REPO, quiet=True):
    """Return (facts_path, srchash, extracted_now, wall_s).  Fail closed if extraction fails."""
    os.makedirs(os.path.join(CACHE, 'facts'), exist_ok=True)
    h = source_hash(repo)
    out = os.path.join(CACHE, 'facts', f'{h}-{config}.json')
    if os.path.exists(out):
        return out, h, False, 0.0
    tag = os.environ.get('VERIF_TARGET_TAG', '')
    lock = open(os.path.join(CACHE, 'lock' + tag), 'w')
    fcntl.flock(lock, fcntl.LOCK_EX)
    try:
        if os.path.exists(out):
            return out, h, False, 0.0
        t0 = time.time()
        build_driver()
        target = os.path.join(CACHE, 'target-' + config + tag)
        # cargo's freshness cache would skip the wrapper: drop the member's fingerprints
        for d in glob.glob(os.path.join(target, 'debug', '.fingerprint', 'jsonb-*')):
            shutil.rmtree(d, ignore_errors=True)
        env = dict(os.environ)
        sysroot = nightly_sysroot()
        env['LD_LIBRARY_PATH'] = os.path.join(sysroot, 'lib') + ':' + env.get('LD_LIBRARY_PATH', '')
        env['RUSTFLAGS'] = '-Zmir-opt-level=0 -Awarnings'
        env['RUSTC_WORKSPACE_WRAPPER'] = DRIVER_BIN
        env['CARGO_TARGET_DIR'] = target
        env['CARGO_NET_OFFLINE'] = 'true'
        tmp_out = out + f'.new.{os.getpid()}'      # private to this process: runs with another target tag may extract the same tree
        env['MIRFACTS_OUT'] = tmp_out
        env['MIRFACTS_STAMP'] = h
        env['MIRFACTS_CRATE'] = 'jsonb'
        for attempt in (1, 2):
            if os.path.exists(tmp_out):
                os.remove(tmp_out)
            r = subprocess.run(['cargo', '+nightly', 'check', '--offline'] + CONFIGS[config], cwd=repo, env=env,
                               stdout=subprocess.PIPE, stderr=subprocess.STDOUT, text=True)
            if r.returncode != 0:
                sys.stderr.write(r.stdout[-6000:])
                raise SystemExit(f'extraction failed: cargo check exited {r.returncode} (does /repo compile?)')
            if os.path.exists(tmp_out) or os.path.exists(out):
                break
            # cargo judged the crate fresh and did not run the wrapper: drop the fingerprints and build once more
            for d in glob.glob(os.path.join(target, 'debug', '.fingerprint', 'jsonb-*')):
                shutil.rmtree(d, ignore_errors=True)
        if os.path.exists(tmp_out):
            os.rename(tmp_out, out)
        elif not os.path.exists(out):
            sys.stderr.write(r.stdout[-3000:])
            raise SystemExit('extraction failed: the driver wrote no fact file (wrapper skipped?)')
        # keep the cache small: drop fact files other than the 30 newest
        def _mt(x):
            try:
                return os.path.getmtime(x)
            except OSError:
                return 0
        fs = sorted(glob.glob(os.path.join(CACHE, 'facts', '*.json')), key=_mt)
        for f in fs[:-60]:
            try:
                if time.time() - _mt(f) < 3600:
                    continue      # may be in use by a concurrent run
                os.remove(f)
            except OSError:
                pass
        return out, h, True, time.time() - t0
    finally:
        fcntl.flock(lock, fcntl.LOCK_UN)
        lock.close()


if __name__ == '__main__':
    cfg = sys.argv[1] if len(sys.argv) > 1 else 'default'
    p, h, fresh, w = get_facts(cfg)
    print(p, h, 'extracted' if fresh else 'cached', f'{w:.1f}s')
