#!/usr/bin/env python3
"""Append the currently reported new violations of a property (optionally filtered by substring of the key) to
known_findings.json with status 'known'.  Used by hand after triage; never by the checks."""
import json, sys, glob, os
pid, defect, what = sys.argv[1], sys.argv[2], sys.argv[3]
flt = sys.argv[4] if len(sys.argv) > 4 else ''
why = sys.argv[5] if len(sys.argv) > 5 else ''
import subprocess
subprocess.run(['/verif/check', pid], capture_output=True)   # refresh the violation files first
p = '/verif/known_findings.json'
k = json.load(open(p)) if os.path.exists(p) else []
have = {(e['property'], e['key']) for e in k}
n = 0
for f in sorted(glob.glob(f'/verif/evidence/violations/{pid}/*.json')):
    d = json.load(open(f))
    if flt and flt not in d['key']:
        continue
    if (pid, d['key']) in have:
        continue
    e = {'property': pid, 'key': d['key'], 'status': 'known', 'defect': defect, 'what': what.replace('{construct}', d['construct'])}
    if why:
        e['why_not_fixed'] = why
    k.append(e); n += 1
json.dump(k, open(p, 'w'), indent=1)
print('added', n)
