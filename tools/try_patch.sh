#!/bin/bash
# usage: try_patch.sh <patch.diff> <PID>...   — apply a patch to /repo, run the checks, always undo the patch
set -u
P=$1; shift
cd /repo || exit 2
if [ -n "$(git status --porcelain -- src README.md Cargo.toml)" ]; then echo "/repo is dirty, refusing"; exit 2; fi
git apply "$P" || { echo "patch does not apply"; exit 2; }
trap 'git -C /repo checkout -q -- .' EXIT
rc=0
for pid in "$@"; do
  /verif/check "$pid" > /tmp/try_patch.$$.out 2>&1; r=$?
  grep -E "^VIOLATION|^KNOWN|^\[|rule=|reason:|extraction failed|error" /tmp/try_patch.$$.out | cut -c1-400 | head -${TRY_LINES:-14}
  echo "== $pid exit=$r"
  [ $r -ne 0 ] && rc=1
done
rm -f /tmp/try_patch.$$.out
exit $rc
