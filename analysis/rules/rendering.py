"""C03: rendering JSONB as text (R03.1-R03.6)."""
from sym import Explorer, explore, show, lin, subterms
from pat import called, canon, is_call, deref_all, strip_casts, agg_variant, const_of
from mir import natural_loops, callee_name
from pathfacts import PathFacts, IntervalSet

MANDATORY = IntervalSet([(0x00, 0x1F), (0x22, 0x22), (0x5C, 0x5C)])
SHORT = {0x5C: '\\\\', 0x22: '\\"', 0x08: '\\b', 0x0C: '\\f', 0x0A: '\\n', 0x0D: '\\r', 0x09: '\\t', 0x2F: '\\/'}


def byte_atom(p):
    for c in p.conds:
        for s in subterms(c[0]):
            if s[0] == 'index':
                return s
    return None


def pushed(p):
    """[(kind, value term)] for String::push_str / String::push on the output, in order."""
    out = []
    for e in p.calls():
        if called(e[1], 'String::push_str') and len(e[2]) == 2:
            out.append(('str', deref_all(e[2][1]), e))
        elif called(e[1], 'String::push') and len(e[2]) == 2:
            out.append(('chr', deref_all(e[2][1]), e))
        elif called(e[1], 'Write::write_fmt', 'Write::write_str', 'Write::write_char') and len(e[2]) == 2:
            out.append(('str', deref_all(e[2][1]), e))
    return out


def r03_1_2(ctx, run, rule1='R03.1', rule2='R03.2'):
    f = ctx.facts
    b = f.one('functions::escape_scalar_string')
    if b is None:
        run.undecided(rule1, 'functions::escape_scalar_string', 'body', 'function not found (anchor lost)')
        return
    loops = natural_loops(b)
    ex = Explorer(b, max_paths=4000)
    plain = IntervalSet([])
    escaped = IntervalSet([])
    arms = 0
    table_driven = False
    loc = f'{b.file}:{b.line}'
    flush_problems = []
    string_problems = []
    string_unknown = []
    esc_paths = {}
    for h in sorted(loops):
        for p in ex.explore(start=h, stop=set(loops)):
            if p.end[0] not in ('stop', 'backedge') or p.end[1] != h:
                continue
            atom = byte_atom(p)
            if atom is None:
                continue
            pf = PathFacts(p.conds)
            rng = pf.range_of(atom).intersect(IntervalSet([(0, 255)]))
            # a classification through a constant 256-entry table (`CLASS[b as usize] == k`): the bytes whose table entry satisfies the condition
            for c in p.conds:
                t_ = deref_all(c[0])
                if t_[0] == 'bin' and t_[1] in ('Eq', 'Ne') and isinstance(c[2], bool) and any(const_of(x_) is not None for x_ in (t_[2], t_[3])):
                    # `TABLE[b] == k` written as a comparison: rewrite as the switch form
                    kc_ = const_of(t_[3]) if const_of(t_[3]) is not None else const_of(t_[2])
                    oth_ = t_[2] if const_of(t_[3]) is not None else t_[3]
                    holds_ = (t_[1] == 'Eq') == c[2]
                    c = (oth_, 'eq' if holds_ else 'ne', kc_ if holds_ else (kc_,))
                    t_ = deref_all(oth_)
                while t_[0] == 'cast' and len(t_) > 2:
                    t_ = deref_all(t_[2])
                def _nv(x_):
                    for _ in range(6):
                        x_ = strip_casts(deref_all(x_))
                    return x_
                if t_[0] == 'index' and _nv(t_[2]) == _nv(atom):
                    tv = const_of(deref_all(t_[1]))
                    if isinstance(tv, tuple) and len(tv) == 256 and all(isinstance(x_, int) for x_ in tv):
                        table_driven = True
                        if c[1] == 'eq' and isinstance(c[2], int) and not isinstance(c[2], bool):
                            sel = [i_ for i_, x_ in enumerate(tv) if x_ == c[2]]
                        elif c[1] == 'ne' and isinstance(c[2], tuple):
                            sel = [i_ for i_, x_ in enumerate(tv) if x_ not in c[2]]
                        else:
                            continue
                        rng = rng.intersect(IntervalSet([(i_, i_) for i_ in sel]) if sel else IntervalSet([]))
            if rng.empty():
                continue
            ps = pushed(p)
            # the pending-run flush: push_str(from_utf8_lossy(value[last_start..i]))
            # the pending-run flush pushes text made from a sub-slice of the *input* (parameter 1)
            from pat import access_path

            def from_input(t_):
                for s_ in subterms(t_):
                    if is_call(s_, 'Index::index') and len(s_[2]) == 2 and deref_all(s_[2][1])[0] == 'agg':
                        r_, st_ = access_path(s_[2][0])
                        if r_[0] == 'init' and r_[1] == 1:
                            return True
                return False
            flushes = [x for x in ps if x[0] == 'str' and from_input(x[1])]
            escapes = [x for x in ps if x not in flushes]
            # the escape written by a crate-local helper that receives the output string (`push_escape(byte, class, json)`)
            via_helper = [e for e in p.calls() if isinstance(e[5], dict) and e[5].get('callee', {}).get('resolved_local') and
                          any(a.get('k') in ('copy', 'move') and 'String' in str(b.local_ty(a['place']['local']).get('s', '')) for a in e[5].get('args', []))]
            if not escapes and via_helper:
                arms += 1
                escaped = escaped.union(rng)
                string_unknown.append(f'bytes {rng}: the escape is written by {canon(via_helper[0][1]).split("::")[-1]}(), which this rule does not read')
                continue
            if not escapes:
                plain = plain.union(rng)
                if flushes:
                    pass
                continue
            arms += 1
            escaped = escaped.union(rng)
            # R03.2: the pushed escape, read as one token sequence (it may be pushed in pieces), denotes the byte
            def hexdigit(x):
                """'H' / 'L' if the term is HEXTABLE[(b >> 4)] / HEXTABLE[(b & 15)] (possibly cast to char), else None"""
                x = strip_casts(deref_all(x))
                if x[0] == 'deref':
                    x = strip_casts(deref_all(x[1]))
                if x[0] != 'index':
                    return None
                tv = const_of(deref_all(x[1]))
                if not (isinstance(tv, tuple) and bytes(tv).lower() == b'0123456789abcdef'):
                    return None
                ix = strip_casts(x[2])
                if ix[0] == 'bin' and ix[1] == 'Shr' and const_of(ix[3]) == 4 and strip_casts(deref_all(ix[2])) == strip_casts(atom):
                    return 'H'
                if ix[0] == 'bin' and ix[1] == 'BitAnd' and const_of(ix[3]) == 15 and strip_casts(deref_all(ix[2])) == strip_casts(atom):
                    return 'L'
                return None
            toks = []
            for kind, t, e in escapes:
                if t[0] == 'const' and isinstance(t[1], str):
                    toks += list(t[1])
                elif t[0] == 'const' and isinstance(t[1], int) and not isinstance(t[1], bool):
                    toks.append(chr(t[1]))
                elif hexdigit(t):
                    toks.append(hexdigit(t))
                elif any(x[0] == 'agg' and x[1] == 'array' and len(x[2]) == 6 for x in subterms(t)):
                    arr = [x for x in subterms(t) if x[0] == 'agg' and x[1] == 'array' and len(x[2]) == 6][0][2]
                    for x in arr:
                        cvv = const_of(x)
                        toks.append(chr(cvv) if isinstance(cvv, int) else (hexdigit(x) or '?'))
                else:
                    # formatted escape: must be built from a template containing `\u` and the byte itself in hex
                    tmpl = [x for x in subterms(t) if x[0] == 'const' and (isinstance(x[1], tuple) or isinstance(x[1], str))]
                    has_u = any((isinstance(x[1], tuple) and b'\\u' in bytes(v for v in x[1] if isinstance(v, int) and v < 256)) or (isinstance(x[1], str) and '\\u' in x[1]) for x in tmpl)
                    hexarg = any(is_call(x, 'Argument::new_lower_hex', 'Argument::new_upper_hex') and x[2] and deref_all(x[2][0]) == atom for x in subterms(t))
                    decarg = any(is_call(x, 'Argument::new_display', 'Argument::new_debug', 'Argument::new_octal', 'Argument::new_binary') and x[2] and deref_all(x[2][0]) == atom for x in subterms(t))
                    if has_u and hexarg:
                        toks += list('\\u00') + ['H', 'L']
                    elif has_u and decarg and not hexarg:
                        toks += list('\\u') + ['D']
                    else:
                        toks.append('?')
            if all(len(x) == 1 and x not in 'HLD?' or x in ('H', 'L', 'D', '?') for x in toks) and not any(x in ('H', 'L', 'D', '?') for x in toks):
                sj = ''.join(toks)
                ok = False
                if len(rng.ivs) == 1 and rng.lo() == rng.hi():
                    v = rng.lo()
                    ok = sj == SHORT.get(v) or sj.lower() == '\\u%04x' % v
                if not ok:
                    string_problems.append(f'bytes {rng} are written as the constant {sj!r}')
            elif toks == list('\\u00') + ['H', 'L'] and rng.hi() <= 0xFF:
                pass
            elif 'D' in toks:
                string_problems.append(f'bytes {rng}: the byte is formatted after `\\u` with a decimal (or other non-hexadecimal) format, so the four digits are not its code point in hex '
                                       '(0x0b is written \\u0011, which denotes U+0011)')
            elif '?' in toks:
                string_unknown.append(f'bytes {rng}: the escape is assembled in a way this rule does not read')
            else:
                string_problems.append(f'bytes {rng} are written as {"".join(toks)!r} (H/L = high/low hex digit of the byte), which is not `\\u00` followed by the two hex digits of the byte')
            # a path either writes the pending run before the escape, or has compared the run start (a loop-carried local)
            # with the current position and found the run empty
            cmp_ = [c for c in p.conds if c[0][0] == 'bin' and c[0][1] in ('Gt', 'Lt', 'Ge', 'Le', 'Ne', 'Eq') and any(s[0] == 'hav' for s in subterms(c[0]))
                    and not any(s[0] == 'index' for s in subterms(c[0]))]
            first_escape = ps.index(escapes[0])
            flushed = any(ps.index(x) < first_escape for x in flushes)
            esc_paths.setdefault(str(rng), []).append(flushed)
            if not flushed and not cmp_:
                flush_problems.append(f'the escape for bytes {rng} is emitted without writing or testing for a pending run of ordinary bytes (they are dropped)')
            ls = None
            for k, v in p.store.items():
                if k[0] == 'L' and b.name_of(k[1]) and v[0] == 'bin' and v[1] == 'Add':
                    l = lin(v)
                    if l[1] == 1 and len(l[0]) == 1 and any(is_call(s, 'Iterator::next') for a in l[0] for s in subterms(a)):
                        ls = k[1]
            if ls is None:
                flush_problems.append(f'after escaping bytes {rng} the start of the next run is not set to i + 1')
    for k, fl in esc_paths.items():
        if not any(fl):
            flush_problems.append(f'for bytes {k} the pending run of ordinary bytes is never written before the escape')
    missing = MANDATORY.intersect(plain)
    # bytes are looked at through something this rule does not read (a wrapper method, a helper): the per-byte paths were not recognised
    helper_read = any(c_.get('resolved_local') and canon(callee_name(t_)).split('::')[-1] not in ('escape_scalar_string',)
                      for _, t_ in b.calls() for c_ in [t_.get('callee', {})])
    if ((not missing.empty() and (escaped.empty() or helper_read)) or (escaped.empty() and plain.empty())) and not table_driven:
        run.undecided(rule1, b.path, 'coverage', 'the per-byte classification of this function was not read (bytes are fetched or classified through a crate-local helper / wrapper): '
                      'which bytes take an escape arm is not decided', loc)
    elif missing.empty() and not escaped.empty():
        run.proved(rule1, b.path, 'coverage', f'all 34 bytes RFC 8259 requires to be escaped (0x00-0x1F, 0x22, 0x5C) take an escape arm; escaped set = {escaped}', loc)
    else:
        run.violation(rule1, b.path, 'coverage', f'bytes {missing if not missing.empty() else MANDATORY} are copied to the output unescaped: RFC 8259 §7 requires them to be escaped, a strict parser rejects the text', loc)
    if string_problems:
        run.violation(rule2, b.path, 'escape-strings', '; '.join(sorted(set(string_problems))[:3]), loc)
    elif string_unknown:
        run.undecided(rule2, b.path, 'escape-strings', '; '.join(sorted(set(string_unknown))[:3]), loc)
    else:
        run.proved(rule2, b.path, 'escape-strings', f'{arms} escape path(s): each short escape denotes its byte, the generic arm writes \\u + the byte in hex', loc)
    if flush_problems:
        run.violation(rule2, b.path, 'flush-before-escape', '; '.join(sorted(set(flush_problems))[:3]), loc)
    else:
        run.proved(rule2, b.path, 'flush-before-escape', 'every escape path first writes the pending run value[last_start..i] (when non-empty) and restarts the run at i + 1', loc)
    run.floor(rule1, 'escape paths in escape_scalar_string', arms, 8)
    # after the loop: the tail run and the closing quote
    for p in ex.explore(start=sorted(loops)[0], stop=set(loops)) if loops else []:
        if p.end[0] == 'return':
            ps = pushed(p)
            ok = ps and ps[-1][0] == 'chr' and const_of(ps[-1][1]) == 0x22
            if not ok:
                run.violation(rule2, b.path, 'closing-quote', 'the string is not closed with a double quote on some path', loc)


def r03_3(ctx, run, rule='R03.3'):
    """pretty = compact + whitespace: per region of container_to_string, paths that differ only in the outcome of
    `pretty_opts.enabled` push the same constants once JSON whitespace is removed; compact paths push no whitespace."""
    f = ctx.facts
    b = f.one('functions::container_to_string')
    if b is None:
        run.undecided(rule, 'functions::container_to_string', 'body', 'function not found (anchor lost)')
        return
    loops = natural_loops(b)
    ex = Explorer(b, max_paths=6000)
    groups = {}
    n = 0

    def is_enabled(c):
        return c[0][0] == 'field' and c[0][2] == 'enabled'
    for s0 in [0] + sorted(loops):
        for p in ex.explore(start=s0, stop=set(loops)):
            if p.end[0] in ('unreachable', 'diverge'):
                continue
            en = [c for c in p.conds if is_enabled(c)]
            if not en:
                continue
            vals = {c[2] for c in en}
            if len(vals) != 1:
                continue   # infeasible: the flag does not change within a call
            enabled = vals.pop()
            key = (s0, p.end, tuple((show(c[0]), c[1], c[2]) for c in p.conds if not is_enabled(c) and 'ovf' not in show(c[0])))
            seq = []
            for kind, t, e in pushed(p):
                if t[0] == 'const':
                    v = t[1]
                    s = chr(v) if isinstance(v, int) else (v if isinstance(v, str) else None)
                    seq.append(('c', s))
                elif any(is_call(x, 'PrettyOpts::generate_indent') for x in subterms(t)):
                    seq.append(('indent', None))
                else:
                    seq.append(('dyn', show(t)[:60]))
            calls = tuple(canon(e[1]).split('::')[-1] for e in p.calls() if called(e[1], 'functions::scalar_to_string', 'functions::escape_scalar_string'))
            groups.setdefault(key, {})[enabled] = (seq, calls)
    loc = f'{b.file}:{b.line}'
    bad = []
    unread = []
    for key, g in groups.items():
        if True not in g or False not in g:
            continue
        n += 1
        (ps, pc), (cs, cc) = g[True], g[False]

        def strip(seq):
            out = ''
            for k, s in seq:
                if k == 'c' and s is not None:
                    out += ''.join(ch for ch in s if ch not in ' \n\r\t')
                elif k == 'dyn':
                    out += '<dyn>'
            return out
        if strip(ps) != strip(cs):
            if strip(ps).replace('<dyn>', '') == strip(cs).replace('<dyn>', '') and strip(ps).count('<dyn>') > strip(cs).count('<dyn>'):
                # the pretty rendering pushes additional strings this rule cannot read (an indentation helper under another name?)
                unread.append(f'pretty pushes {strip(ps)!r} where compact pushes {strip(cs)!r}')
            else:
                bad.append(f'pretty pushes {strip(ps)!r} where compact pushes {strip(cs)!r}')
        if any(k == 'indent' for k, s in cs) or any(k == 'c' and s and any(ch in ' \n\r\t' for ch in s) for k, s in cs):
            bad.append('the compact rendering pushes whitespace')
        if pc != cc:
            bad.append(f'pretty calls {pc} where compact calls {cc}')
    if bad:
        run.violation(rule, b.path, 'pretty-vs-compact', '; '.join(sorted(set(bad))[:3]), loc)
    elif unread:
        run.undecided(rule, b.path, 'pretty-vs-compact', 'the pretty rendering pushes extra non-constant strings whose content this rule does not read (' + unread[0] +
                      '): whether they are whitespace only is not decided', loc)
    else:
        run.proved(rule, b.path, 'pretty-vs-compact', f'{n} path pairs differing only in the pretty flag push the same non-whitespace constants and make the same nested calls', loc)
    run.floor(rule, 'path pairs differing only in pretty_opts.enabled', n, 6)
    # R03.6 indentation
    gi = f.one('functions::PrettyOpts::generate_indent')
    ii = f.one('functions::PrettyOpts::inc_indent')
    if gi is None or ii is None:
        run.undecided('R03.6', 'functions::PrettyOpts', 'indent', 'helpers not found (anchor lost)')
        return
    ps, _ = explore(gi)
    ok = False
    for p in ps:
        if p.end[0] == 'return':
            for s in subterms(p.ret):
                if s[0] == 'call' and 'from_elem' in s[1] and s[2] and const_of(s[2][0]) == 0x20:
                    ok = True
    bad_char = False
    const_run = None
    guarded_run = None
    for p in ps:
        if p.end[0] == 'return':
            for s_ in subterms(p.ret):
                if s_[0] == 'call' and canon(s_[1]).split('::')[-1] == 'repeat' and s_[2]:
                    cs_ = const_of(deref_all(s_[2][0]))
                    if isinstance(cs_, str) and cs_ and set(cs_) == {' '}:
                        ok = True
                    elif isinstance(cs_, str):
                        bad_char = True
                run_len = None
                if s_[0] == 'const' and isinstance(s_[1], str) and s_[1] and set(s_[1]) == {' '} and len(s_[1]) > 1:
                    run_len = len(s_[1])
                if s_[0] == 'const' and isinstance(s_[1], tuple) and len(s_[1]) > 1 and all(x == 0x20 for x in s_[1]):
                    run_len = len(s_[1])
                if run_len:
                    # a prefix of a static run is the right indentation as long as the indent fits; it is only wrong when taken
                    # unconditionally (indexing, clamping).  `RUN.get(..n)` matched `Some`, or a comparison of the indent with the run
                    # length on the path, makes it conditional; the other side must then build the general string.
                    def _guard(c):
                        t = c[0]
                        if t[0] == 'discr' and t[1][0] == 'call' and canon(t[1][1]).split('::')[-1] == 'get' and any(x_ is s_ or x_ == s_ for x_ in subterms(t[1])):
                            return True
                        if t[0] == 'bin' and t[1] in ('Le', 'Lt', 'Ge', 'Gt') and any(const_of(x_) in (run_len, run_len + 1, run_len - 1) or is_call(strip_casts(x_), 'len') for x_ in (t[2], t[3])):
                            return True
                        return False
                    if any(_guard(c) for c in p.conds):
                        guarded_run = run_len
                    else:
                        const_run = run_len
                if s_[0] == 'call' and 'from_elem' in s_[1] and s_[2] and const_of(s_[2][0]) not in (None, 0x20):
                    bad_char = True
    if const_run:
        run.violation('R03.6', gi.path, 'indent-char', f'the indentation is cut out of a constant run of {const_run} spaces: the indent grows by two per nesting level without bound, so beyond '
                      f'{const_run // 2} levels the lines are mis-indented (capped) or the slice is out of range', f'{gi.file}:{gi.line}')
    elif guarded_run and not ok:
        run.undecided('R03.6', gi.path, 'indent-char', f'a prefix of a static run of {guarded_run} spaces is used where the indent fits; what is produced beyond it was not read: not decided', f'{gi.file}:{gi.line}')
    elif ok and not bad_char:
        run.proved('R03.6', gi.path, 'indent-char', 'indentation is a run of U+0020' + (f' (a prefix of a static run of {guarded_run} where it fits, built to length beyond)' if guarded_run else ''), f'{gi.file}:{gi.line}')
    elif bad_char:
        run.violation('R03.6', gi.path, 'indent-char', 'the indentation string is not built from spaces only', f'{gi.file}:{gi.line}')
    else:
        run.undecided('R03.6', gi.path, 'indent-char', 'the indentation string is built in a way this rule does not read', f'{gi.file}:{gi.line}')
    ps, _ = explore(ii)
    ok = False
    for p in ps:
        if p.end[0] == 'return' and agg_variant(p.ret):
            for x in p.ret[2]:
                l = lin(x)
                if l[1] == 2 and len(l[0]) == 1 and list(l[0].values()) == [1]:
                    ok = True
    (run.proved if ok else run.violation)('R03.6', ii.path, 'indent-step', 'each level adds two spaces' if ok else 'a nesting level does not add exactly two to the indentation', f'{ii.file}:{ii.line}')


def r03_4(ctx, run, rule='R03.4'):
    f = ctx.facts
    b = f.bodies.get('<number::Number as std::fmt::Display>::fmt')
    if b is None:
        run.undecided(rule, 'Number::fmt', 'body', 'Display for Number not found (anchor lost)')
        return
    vs = [v['name'] for v in f.adts['number::Number']['variants']]
    ps, _ = explore(b)
    table = {}
    for p in ps:
        if p.end[0] != 'return':
            continue
        v = [c for c in p.conds if c[0][0] == 'discr' and c[1] == 'eq']
        if not v:
            continue
        fm = [e[5]['callee'].get('full', '') for e in p.calls() if called(e[1], 'Buffer::format')]
        casts = [s for x in p.events if x[0] == 'call' for a in x[2] for s in subterms(a) if s[0] == 'cast' and s[1] in ('FloatToFloat', 'FloatToInt', 'IntToFloat')]
        table.setdefault(vs[v[0][2]], set()).add((tuple(fm), bool(casts)))
    exp = {'Int64': 'itoa::Buffer::format::<i64>', 'UInt64': 'itoa::Buffer::format::<u64>', 'Float64': 'ryu::Buffer::format::<f64>'}
    for k, want in exp.items():
        got = table.get(k, set())
        ok = got == {((want,), False)}
        (run.proved if ok else run.violation)(rule, b.path, f'arm[{k}]', f'formatted by {want} only (shortest round-trip digits)' if ok else
                                               f'{k} must be formatted by {want} on every path with no numeric conversion; found {sorted(got)}: the printed digits need not read back as the same number', f'{b.file}:{b.line}')
    # scalar_to_string routes numbers through Number::decode + Display
    s2s = f.one('functions::scalar_to_string')
    if s2s is not None:
        ps, _ = explore(s2s)
        ok = False
        for p in ps:
            cs = list(p.calls())
            dec = [i for i, e in enumerate(cs) if called(e[1], 'Number::decode')]
            if dec and any(called(e[1], 'ToString::to_string', 'Write::write_fmt', 'fmt::format', 'Display::fmt') for e in cs[dec[0]:]):
                ok = True
        (run.proved if ok else run.undecided)(rule, s2s.path, 'number-arm', 'numbers are decoded and printed with Display for Number' if ok else
                                               'no path was recognised that decodes the number and prints it through Display (to_string / write! / format!): how numbers reach the text is not decided', f'{s2s.file}:{s2s.line}')


# ------------------------------------------------------------------ R03.8 the two hex digits of a byte are written high nibble first

def r03_8(ctx, run, rule='R03.8'):
    """Wherever a byte is rendered as two hexadecimal digits pushed one after the other (a table or digit function indexed by `b >> 4` and by
    `b & 0x0F`), the digit of the high nibble comes first: `\\u001f`, not `\\u00f1`."""
    f = ctx.facts
    cone = [p for p in ctx.cg.reachable(['functions::to_string', 'functions::to_pretty_string']) if p in f.bodies and p.startswith(('functions::', 'number::', 'util::'))]
    n = 0
    bad = []
    for p in sorted(cone):
        b = f.bodies[p]
        if b.kind == 'Promoted':
            continue
        from rules.editing import region_paths
        for q in region_paths(b)[0]:
            seq = []
            for e in q.calls():
                if not (called(e[1], 'String::push', 'Vec::push', 'String::push_str', 'Vec::extend_from_slice') and len(e[2]) == 2):
                    continue
                for s_ in subterms(e[2][1]):
                    if s_[0] == 'bin' and s_[1] == 'Shr' and const_of(s_[3]) == 4:
                        seq.append(('hi', show(deref_all(strip_casts(s_[2]))), e[5]))
                        break
                    if s_[0] == 'bin' and s_[1] == 'BitAnd' and any(const_of(x_) == 15 for x_ in (s_[2], s_[3])):
                        x_ = s_[3] if const_of(s_[2]) == 15 else s_[2]
                        seq.append(('lo', show(deref_all(strip_casts(x_))), e[5]))
                        break
            for i in range(len(seq) - 1):
                (k1, v1, t1), (k2, v2, _) = seq[i], seq[i + 1]
                if v1 == v2 and {k1, k2} == {'hi', 'lo'}:
                    n += 1
                    if k1 == 'lo':
                        bad.append((p, f"{t1.get('file')}:{t1.get('line')}"))
    for p, loc in sorted(set(bad)):
        run.violation(rule, p, 'nibble-order', 'the hex digit of the low nibble (b & 0x0F) is written before the digit of the high nibble (b >> 4): the byte 0x1f is rendered "f1"', loc)
    if not bad:
        run.proved(rule, '<rendering cone>', 'nibble-order', f'{n} pair(s) of hex-digit pushes: high nibble first' if n else 'no byte is rendered as a pair of separately pushed hex digits', nontrivial=bool(n))
