"""Number codec and ordering rules (R18.x), shared by C01, C04, C12, C14, C18."""
from sym import explore, show, lin, subterms, INT_RANGES
from pat import called, canon, is_call, agg_variant, strip_casts, const_of, deref_all, find_terms
from pathfacts import PathFacts, IntervalSet, INF
from rules.layout import cv

NUM = 'number::Number'


def is_residual(ret):
    return is_call(ret, 'FromResidual::from_residual')


def variant_of_path(p):
    for c in p.conds:
        if c[0][0] == 'discr' and c[1] == 'eq':
            return c[2]
    return None


def payload_value_atom(p):
    """The term standing for the matched integer/float payload `*v` in compact_encode paths."""
    for c in p.conds:
        for s in subterms(c[0]):
            if s[0] == 'field' and s[1][0] == 'downcast':
                return s
    return None


def written_chunks(p):
    """Arguments of the successive write_all calls of a path, as terms with refs stripped."""
    out = []
    for e in p.calls():
        if called(e[1], 'Write::write_all'):
            out.append(deref_all(e[2][1]))
    return out


def chunk_desc(t, facts):
    """Describe one written chunk: ('bytes', (b,...)) | ('be', tyname, source term) | ('?', term)"""
    t = deref_all(t)
    if t[0] == 'const' and isinstance(t[1], tuple):
        return ('bytes', tuple(t[1]))
    if t[0] == 'agg' and t[1] == 'array':
        vals = [const_of(x) for x in t[2]]
        if all(v is not None for v in vals):
            return ('bytes', tuple(vals))
    if t[0] == 'call' and canon(t[1]).endswith('to_be_bytes'):
        # callee path: core::num::<impl i8>::to_be_bytes / core::f64::<impl f64>::to_be_bytes
        import re
        m = re.search(r'impl (\w+)>::to_be_bytes', t[1])
        ty = m.group(1) if m else '?'
        return ('be', ty, deref_all(t[2][0]))
    return ('?', t)


WIDTH = {'i8': 1, 'i16': 2, 'i32': 4, 'i64': 8, 'u8': 1, 'u16': 2, 'u32': 4, 'u64': 8, 'f64': 8}


def r18_1(ctx, run, rule='R18.1'):
    """Encoder: exact, lossless, shortest partition of the value range; tag bytes; returned count = bytes written."""
    f = ctx.facts
    b = f.one('number::Number::compact_encode')
    if b is None:
        run.violation(rule, 'number::Number::compact_encode', 'body', 'function not found (anchor lost)')
        return {}
    ps, capped = explore(b, max_paths=4000)
    if capped:
        run.undecided(rule, b.path, 'paths', 'path cap exceeded')
    vs = [v['name'] for v in f.adts[NUM]['variants']]
    tags = {n: cv(f, n) for n in ('NUMBER_ZERO', 'NUMBER_NAN', 'NUMBER_INF', 'NUMBER_NEG_INF', 'NUMBER_INT', 'NUMBER_UINT', 'NUMBER_FLOAT')}
    table = {}   # (variant, ty) -> tag   (for the decoder inverse)
    covered = {'Int64': IntervalSet([]), 'UInt64': IntervalSet([])}
    npaths = 0
    for p in ps:
        if p.end[0] != 'return' or is_residual(p.ret):
            continue
        vi = variant_of_path(p)
        if vi is None or vi >= len(vs):
            continue
        vname = vs[vi]
        chunks = [chunk_desc(c, f) for c in written_chunks(p)]
        nbytes = 0
        okshape = True
        for c in chunks:
            if c[0] == 'bytes':
                nbytes += len(c[1])
            elif c[0] == 'be':
                nbytes += WIDTH.get(c[1], 0)
            else:
                okshape = False
        ret = p.ret
        rc = None
        if agg_variant(ret) and ret[1][2] == 'Ok':
            rc = const_of(ret[2][0])
        loc = f"{b.file}:{b.blocks[p.end[1]]['term'].get('line')}"
        npaths += 1
        desc_key = None
        if not okshape:
            run.violation(rule, b.path, f'path[{vname}]/shape', f'bytes written are not constant tag bytes / to_be_bytes: {[show(c[1]) if c[0]=="?" else c for c in chunks]}', loc)
            continue
        if rc != nbytes:
            run.violation(rule, b.path, f'path[{vname}]/count', f'returns Ok({rc}) but writes {nbytes} byte(s) on this path', loc)
        if vname in ('Int64', 'UInt64'):
            ty64 = 'i64' if vname == 'Int64' else 'u64'
            atom = payload_value_atom(p)
            pf = PathFacts(p.conds)
            rng = (pf.range_of(atom) if atom is not None else IntervalSet()).intersect(IntervalSet.of_type(ty64))
            if rng.empty():
                continue
            covered[vname] = covered[vname].union(rng)
            tagb = chunks[0][1][0] if chunks and chunks[0][0] == 'bytes' and len(chunks[0][1]) == 1 else None
            if len(chunks) == 1:
                # one-byte form: only the value zero
                ok = tagb == tags['NUMBER_ZERO'] and rng == IntervalSet([(0, 0)])
                (run.proved if ok else run.violation)(rule, b.path, f'arm[{vname} zero]',
                                                       f'{rng} -> [NUMBER_ZERO]' if ok else f'values {rng} are written as the single byte {tagb}: only 0 may use the one-byte form', loc)
                table[(vname, 'zero')] = tagb
                continue
            exp_tag = tags['NUMBER_INT'] if vname == 'Int64' else tags['NUMBER_UINT']
            if tagb != exp_tag:
                run.violation(rule, b.path, f'arm[{vname}]/tag', f'tag byte {tagb} for {vname}, expected {exp_tag:#x}', loc)
            if len(chunks) != 2 or chunks[1][0] != 'be':
                run.violation(rule, b.path, f'arm[{vname}]/payload', f'payload is not one big-endian integer: {chunks}', loc)
                continue
            ty = chunks[1][1]
            src = chunks[1][2]
            signed_ok = ty.startswith('i') == (vname == 'Int64')
            tr = IntervalSet.of_type(ty)
            narrower = {'i16': 'i8', 'i32': 'i16', 'i64': 'i32', 'u16': 'u8', 'u32': 'u16', 'u64': 'u32'}.get(ty)
            lossless = rng.subset_of(tr)
            shortest = True
            if narrower:
                shortest = rng.intersect(IntervalSet.of_type(narrower)).empty()
            else:
                shortest = True
            # 0 must not take a multi-byte form
            nozero = rng.intersect(IntervalSet([(0, 0)])).empty()
            # the source of the cast must be the matched value itself
            srcv = strip_casts(src)
            same = atom is not None and (srcv == atom or deref_all(srcv) == atom)
            ok = signed_ok and lossless and shortest and nozero and same
            msg = f'values {rng} -> tag {tagb:#x} + {ty} big-endian ({WIDTH[ty]} bytes)'
            if ok:
                run.proved(rule, b.path, f'arm[{vname} as {ty}]', msg, loc)
            else:
                why = []
                if not signed_ok:
                    why.append('signedness of the narrow type differs from the variant')
                if not lossless:
                    why.append(f'cast to {ty} loses values outside {tr}')
                if not shortest:
                    why.append(f'values fitting {narrower} are written in {WIDTH[ty]} bytes (not the shortest form)')
                if not nozero:
                    why.append('zero takes a multi-byte form')
                if not same:
                    why.append(f'payload written is {show(src)}, not the value itself')
                run.violation(rule, b.path, f'arm[{vname} as {ty}]', msg + ': ' + '; '.join(why), loc)
            table[(vname, ty)] = tagb
        elif vname == 'Float64':
            # classify by the float predicates tested on the path
            preds = {}
            extra = []
            for c in p.conds:
                t = c[0]
                if t[0] == 'call' and called(t[1], 'f64::is_nan', 'f64::is_infinite', 'f64::is_sign_negative', 'f64::is_finite', 'f64::is_sign_positive'):
                    preds[canon(t[1]).split('::')[-1]] = c[2]
                elif t[0] == 'discr':
                    continue
                elif is_call(t, 'Try::branch') or (t[0] == 'discr'):
                    continue
                else:
                    # any other test of the float value (e.g. `v == 0.0`) splits the finite class
                    if any(s[0] == 'downcast' and s[2] == 'Float64' for s in subterms(t)):
                        extra.append(c)
            cls = None
            if preds.get('is_nan') is True:
                cls = 'nan'
            elif preds.get('is_nan') is False and preds.get('is_infinite') is True:
                cls = 'neg_inf' if preds.get('is_sign_negative') is True else ('inf' if preds.get('is_sign_negative') is False else 'inf?')
            elif preds.get('is_nan') is False and preds.get('is_infinite') is False:
                cls = 'finite'
            exp = {'nan': [('bytes', (tags['NUMBER_NAN'],))], 'inf': [('bytes', (tags['NUMBER_INF'],))],
                   'neg_inf': [('bytes', (tags['NUMBER_NEG_INF'],))]}
            if cls in exp:
                ok = chunks == exp[cls]
                (run.proved if ok else run.violation)(rule, b.path, f'arm[Float64 {cls}]', 'one-byte form' if ok else f'{cls} is written as {chunks}', loc)
                table[('Float64', cls)] = chunks[0][1][0] if chunks and chunks[0][0] == 'bytes' else None
            elif cls == 'finite':
                ok = (len(chunks) == 2 and chunks[0] == ('bytes', (tags['NUMBER_FLOAT'],)) and chunks[1][0] == 'be' and chunks[1][1] == 'f64'
                      and any(s[0] == 'downcast' and s[2] == 'Float64' for s in subterms(chunks[1][2])))
                if extra:
                    ok2 = ok
                    conds = '; '.join(f'{show(c[0])} = {c[2]}' for c in extra)
                    if not ok2:
                        run.violation(rule, b.path, 'arm[Float64 finite]/split', f'finite floats satisfying [{conds}] are written as {chunks} instead of NUMBER_FLOAT + 8 bytes: the float does not survive bit-for-bit', loc)
                    else:
                        run.proved(rule, b.path, 'arm[Float64 finite]/split', f'extra test [{conds}] does not change the encoding', loc)
                else:
                    (run.proved if ok else run.violation)(rule, b.path, 'arm[Float64 finite]', 'NUMBER_FLOAT + f64 big-endian (9 bytes)' if ok else f'finite floats are written as {chunks}', loc)
                table[('Float64', 'f64')] = tags['NUMBER_FLOAT']
            else:
                conds = '; '.join(f'{show(c[0])} = {c[2]}' for c in extra) or str(preds)
                run.violation(rule, b.path, 'arm[Float64 unclassified]', f'floats satisfying [{conds}] are written as {chunks} on a path that never established nan / infinite / finite: '
                              f'only NaN and the infinities may use a one-byte form, every other float must be NUMBER_FLOAT + its 8 bytes', loc)
    for vname, ty64 in (('Int64', 'i64'), ('UInt64', 'u64')):
        full = IntervalSet.of_type(ty64)
        if covered[vname] == full:
            run.proved(rule, b.path, f'coverage[{vname}]', f'the width arms partition all of {ty64}')
        else:
            missing = full.intersect(covered[vname].complement())
            run.violation(rule, b.path, f'coverage[{vname}]', f'no arm encodes the values {missing}', f'{b.file}:{b.line}')
    for need in (('Int64', 'i8'), ('Int64', 'i16'), ('Int64', 'i32'), ('Int64', 'i64'), ('UInt64', 'u8'), ('UInt64', 'u16'), ('UInt64', 'u32'), ('UInt64', 'u64'),
                 ('Float64', 'f64'), ('Float64', 'nan'), ('Float64', 'inf'), ('Float64', 'neg_inf')):
        if need not in table:
            run.violation(rule, b.path, f'arm[{need[0]} as {need[1]}]', 'this width/class arm was not found (anchor lost)', f'{b.file}:{b.line}')
    run.floor(rule, 'compact_encode success paths', npaths, 14)
    return table


def r18_2(ctx, run, rule='R18.2', enc_table=None):
    """Decoder table: (tag byte, payload length) -> from_be_bytes::<T> and the widening cast; inverse of the encoder;
    every other (tag, length) returns Err."""
    f = ctx.facts
    b = f.one('number::Number::decode')
    if b is None:
        run.violation(rule, 'number::Number::decode', 'body', 'function not found (anchor lost)')
        return
    ps, capped = explore(b)
    tags = {n: cv(f, n) for n in ('NUMBER_ZERO', 'NUMBER_NAN', 'NUMBER_INF', 'NUMBER_NEG_INF', 'NUMBER_INT', 'NUMBER_UINT', 'NUMBER_FLOAT')}
    tname = {v: k for k, v in tags.items()}
    table = {}
    for p in ps:
        if p.end[0] != 'return':
            continue
        tag = None
        plen = None
        tag_other = False
        len_other = None
        for c in p.conds:
            t = c[0]
            if t[0] == 'index' and c[1] == 'eq':
                tag = c[2]
            elif t[0] == 'index' and c[1] == 'ne':
                tag_other = True
            elif c[1] in ('eq', 'ne') and not isinstance(c[2], bool):
                l = lin(t)
                if len(l[0]) == 1 and list(l[0].values()) == [1] and l[1] == -1:
                    a = list(l[0])[0]
                    if a[0] == 'call' and called(a[1], 'slice::len', 'len') or a[0] == 'len':
                        if c[1] == 'eq':
                            plen = c[2]
                        else:
                            len_other = c[2]
        ret = p.ret
        res = None
        if agg_variant(ret) and ret[1][2] == 'Err':
            res = ('Err',)
        elif agg_variant(ret) and ret[1][2] == 'Ok':
            v = ret[2][0]
            if agg_variant(v) and v[1][1] == NUM:
                inner = v[2][0]
                src = strip_casts(inner)
                if src[0] == 'call' and canon(src[1]).endswith('from_be_bytes'):
                    import re
                    m = re.search(r'impl (\w+)>::from_be_bytes', src[1])
                    res = ('be', v[1][2], m.group(1) if m else '?')
                elif inner[0] == 'const':
                    res = ('const', v[1][2], inner[1])
                else:
                    res = ('?', v[1][2], show(inner))
        key = (tname.get(tag, tag) if not tag_other else 'otherwise', plen if plen is not None else ('otherwise' if len_other is not None else None))
        table.setdefault(key, set()).add(res)
    loc = f'{b.file}:{b.line}'
    exp = {
        ('NUMBER_ZERO', None): {('const', 'UInt64', 0)},
        ('NUMBER_NAN', None): {('const', 'Float64', 'bits:9221120237041090560')},
        ('NUMBER_INF', None): {('const', 'Float64', 'bits:9218868437227405312')},
        ('NUMBER_NEG_INF', None): {('const', 'Float64', 'bits:18442240474082181120')},
        ('NUMBER_INT', 1): {('be', 'Int64', 'i8')}, ('NUMBER_INT', 2): {('be', 'Int64', 'i16')},
        ('NUMBER_INT', 4): {('be', 'Int64', 'i32')}, ('NUMBER_INT', 8): {('be', 'Int64', 'i64')},
        ('NUMBER_UINT', 1): {('be', 'UInt64', 'u8')}, ('NUMBER_UINT', 2): {('be', 'UInt64', 'u16')},
        ('NUMBER_UINT', 4): {('be', 'UInt64', 'u32')}, ('NUMBER_UINT', 8): {('be', 'UInt64', 'u64')},
        ('NUMBER_FLOAT', 8): {('be', 'Float64', 'f64')},
        ('NUMBER_INT', 'otherwise'): {('Err',)}, ('NUMBER_UINT', 'otherwise'): {('Err',)}, ('NUMBER_FLOAT', 'otherwise'): {('Err',)},
        ('otherwise', None): {('Err',)},
    }
    for k, v in exp.items():
        got = table.get(k)
        d = f'row[{k[0]},{k[1] if k[1] is not None else "-"}]'
        if got == v:
            run.proved(rule, b.path, d, f'-> {sorted(v)[0]}', loc)
        else:
            # NaN bit pattern may legitimately be any NaN: accept any Float64 NaN constant
            if k[0] == 'NUMBER_NAN' and got and all(r and r[0] == 'const' and r[1] == 'Float64' and str(r[2]).startswith('bits:') and _is_nan_bits(r[2]) for r in got):
                run.proved(rule, b.path, d, '-> Float64(NaN)', loc)
                continue
            run.violation(rule, b.path, d, f'expected {sorted(v)}, found {sorted(map(str, got)) if got else "no such row"}: the decoder does not invert the encoder for this (tag, payload length)', loc)
    for k, got in table.items():
        if k not in exp and got != {('Err',)} and got != {None}:
            run.violation(rule, b.path, f'row[{k[0]},{k[1]}]', f'unexpected decoder row {sorted(map(str, got))} (the encoder never produces this form)', loc)
    # widening casts must preserve the value: source type signedness == variant signedness is covered by the table above


def _is_nan_bits(s):
    try:
        bits = int(s.split(':')[1])
    except Exception:
        return False
    exp = (bits >> 52) & 0x7FF
    man = bits & ((1 << 52) - 1)
    return exp == 0x7FF and man != 0
