"""Evaluation of small predicates over the variants of an enum: `fn is_x(&self) -> bool` written with `matches!`, a `match`, or in
terms of other such predicates (`!self.is_array() && !self.is_object()`)."""
from sym import explore
from pat import deref_all, canon, agg_variant


def _is_self(t, arg=1):
    t = deref_all(t)
    while t[0] == 'cast':
        t = deref_all(t[2])
    return t[0] == 'init' and t[1] == arg


def enum_pred(f, path, idx, depth=0, arg=1):
    """Value (bool / int constant) that the one-argument function `path` returns when its argument is variant number `idx` of its enum;
    None when this cannot be evaluated (a condition or result that depends on anything but the discriminant)."""
    # arg: which parameter is the enum value (1 for `fn(&self)`, 2 for a closure `|v| ..`, whose first parameter is its environment)
    b = f.bodies.get(path)
    if b is None or b.argc != arg or depth > 4:
        return None
    ps, _ = explore(b)

    def val(t):
        t = deref_all(t)
        while t[0] == 'cast' and t[1] == 'IntToInt':
            t = deref_all(t[2])
        if t[0] == 'const':
            return t[1]
        if t[0] == 'discr' and _is_self(t[1], arg):
            return idx
        if t[0] == 'un' and t[1] == 'Not':
            v = val(t[2])
            return (not v) if isinstance(v, bool) else None
        if t[0] == 'bin' and t[1] in ('Eq', 'Ne', 'BitAnd', 'BitOr'):
            a, c = val(t[2]), val(t[3])
            if a is None or c is None:
                return None
            if t[1] == 'Eq':
                return a == c
            if t[1] == 'Ne':
                return a != c
            if isinstance(a, bool) and isinstance(c, bool):
                return (a and c) if t[1] == 'BitAnd' else (a or c)
            return None
        if agg_variant(t) and t[1][1].split('::')[-1] in ('Option', 'Result'):
            return ('variant', t[1][2])
        if t[0] == 'call' and len(t[2]) == 1 and canon(t[1]).split('::')[-1] in ('is_some', 'is_none', 'is_ok', 'is_err') and canon(t[1]).split('::')[-2:-1] in (['Option'], ['Result']):
            v = val(t[2][0])
            if isinstance(v, tuple) and v[0] == 'variant':
                want = {'is_some': 'Some', 'is_none': 'None', 'is_ok': 'Ok', 'is_err': 'Err'}[canon(t[1]).split('::')[-1]]
                return v[1] == want
            return None
        if t[0] == 'call' and len(t[2]) == 1 and _is_self(t[2][0], arg):
            cands = [p for p in f.bodies if p == t[1] or canon(p) == canon(t[1])]
            if len(cands) == 1:
                return enum_pred(f, cands[0], idx, depth + 1)
        return None

    out = None
    for q in ps:
        if q.end[0] != 'return':
            return None
        feasible = True
        for c in q.conds:
            v = val(c[0])
            if v is None:
                return None
            if c[1] == 'eq':
                ok = (v == c[2])
            elif c[1] == 'ne':
                ok = v not in (c[2] if isinstance(c[2], tuple) else (c[2],))
            else:
                return None
            if not ok:
                feasible = False
                break
        if not feasible:
            continue
        r = val(q.ret)
        if r is None or (out is not None and out != r):
            return None
        out = r
    return out


# ------------------------------------------------------------------ predicates over the first byte of a byte string, evaluated for all 256 values

_INT_BITS = {'u8': 8, 'u16': 16, 'u32': 32, 'u64': 64, 'usize': 64, 'i8': 8, 'i16': 16, 'i32': 32, 'i64': 64, 'isize': 64, 'u128': 128, 'i128': 128}


def _first_byte_src(t):
    """the slice term S when t is the first byte of S: *(S.first() as Some).0, S[0], *(S.get(0) as Some).0; else None"""
    t0 = t
    for _ in range(6):
        if isinstance(t0, tuple) and t0 and t0[0] in ('deref', 'ref'):
            t0 = t0[1]
        else:
            break
    if t0[0] == 'field' and t0[1][0] == 'downcast' and t0[1][2] == 'Some' and t0[1][1][0] == 'call':
        c = t0[1][1]
        nm = canon(c[1])
        if nm.endswith('::first') and c[2]:
            return deref_all(c[2][0])
        if nm.endswith('::get') and len(c[2]) == 2 and deref_all(c[2][1])[0] == 'const' and deref_all(c[2][1])[1] == 0:
            return deref_all(c[2][0])
    if t0[0] == 'index' and deref_all(t0[2])[0] == 'const' and deref_all(t0[2])[1] == 0:
        return deref_all(t0[1])
    return None


def first_byte_table(f, path):
    """For a `fn(..) -> bool` whose answer depends only on the first byte of one byte string (and on whether there is one): the set of
    first-byte values for which it answers true, and its answer for the empty string — ({values}, empty_answer); None if the function is
    not of that form or a step of its computation is not evaluated here."""
    b = f.bodies.get(path)
    if b is None or str(b.local_ty(0).get('s')) != 'bool':
        return None
    ps, capped = explore(b, max_paths=400)
    if capped or not ps:
        return None
    src = [None]

    class Unknown(Exception):
        pass

    def ev(t, v):
        """v: byte value 0..255, or None for the empty string"""
        s0 = _first_byte_src(t)
        if s0 is not None:
            if src[0] is None:
                src[0] = s0
            elif src[0] != s0:
                raise Unknown()
            if v is None:
                raise Unknown()
            return v
        t = deref_all(t)
        k = t[0]
        if k == 'const':
            if isinstance(t[1], (int, bool)):
                return t[1]
            raise Unknown()
        if k == 'discr' and t[1][0] == 'call' and canon(t[1][1]).endswith(('::first', '::get')):
            return 0 if v is None else 1
        if k == 'call' and canon(t[1]).endswith(('slice::is_empty', 'Vec::is_empty')) and t[2]:
            return v is None
        if k == 'call' and canon(t[1]).endswith(('Option::is_some', 'Option::is_none')) and t[2] and deref_all(t[2][0])[0] == 'call' and canon(deref_all(t[2][0])[1]).endswith(('::first', '::get')):
            some = v is not None
            return some if canon(t[1]).endswith('is_some') else not some
        if k == 'cast' and t[1] == 'IntToInt':
            x = ev(t[2], v)
            bits = _INT_BITS.get(t[3])
            if bits is None or isinstance(x, bool):
                raise Unknown()
            return x & ((1 << bits) - 1)
        if k == 'un' and t[1] == 'Not':
            x = ev(t[2], v)
            return (not x) if isinstance(x, bool) else ~x
        if k == 'bin':
            a, c = ev(t[2], v), ev(t[3], v)
            op = t[1]
            if op in ('Eq', 'Ne', 'Lt', 'Le', 'Gt', 'Ge'):
                return {'Eq': a == c, 'Ne': a != c, 'Lt': a < c, 'Le': a <= c, 'Gt': a > c, 'Ge': a >= c}[op]
            if op in ('BitAnd', 'BitOr', 'BitXor'):
                if isinstance(a, bool) and isinstance(c, bool):
                    return {'BitAnd': a and c, 'BitOr': a or c, 'BitXor': a != c}[op]
                return {'BitAnd': a & c, 'BitOr': a | c, 'BitXor': a ^ c}[op]
            if op == 'Shl':
                return (a << c) & ((1 << 64) - 1)
            if op == 'Shr':
                return a >> c
            if op in ('Add', 'Sub', 'Mul'):
                return {'Add': a + c, 'Sub': a - c, 'Mul': a * c}[op]
        if k == 'ovf':
            ev(t[2], v), ev(t[3], v)
            return False
        raise Unknown()

    def run(v):
        ans = None
        for q in ps:
            if q.end[0] not in ('return', 'unreachable'):
                raise Unknown()
            feasible = True
            for c in q.conds:
                x = ev(c[0], v)
                if c[1] == 'eq':
                    ok = (x == c[2])
                elif c[1] == 'ne':
                    ok = x not in (c[2] if isinstance(c[2], tuple) else (c[2],))
                else:
                    raise Unknown()
                if not ok:
                    feasible = False
                    break
            if not feasible:
                continue
            if q.end[0] == 'unreachable':
                raise Unknown()
            r = ev(q.ret, v)
            if not isinstance(r, bool) or (ans is not None and ans != r):
                raise Unknown()
            ans = r
        if ans is None:
            raise Unknown()
        return ans

    try:
        vals = {v for v in range(256) if run(v)}
        empty = run(None)
    except Unknown:
        return None
    except Exception:
        return None
    if src[0] is None:
        return None
    return vals, empty


# ------------------------------------------------------------------ paths of a decoder evaluated over (first byte, total length) of its one byte-string argument

class NotEvaluated(Exception):
    pass


def tag_len_paths(ps, argn=1):
    """For the explored paths `ps` of a function whose branching depends only on the first byte and the length of its byte-string
    argument number `argn`: a function feasible(tag, n) -> [paths whose conditions all hold for a string of n bytes starting with tag]
    (tag is ignored for n == 0).  feasible raises NotEvaluated when a condition on some path reads anything else."""
    from pat import is_arg, slice_tail1, called

    def ev(t, T, n):
        s0 = _first_byte_src(t)
        if s0 is not None:
            if not is_arg(s0, argn) or n < 1:
                raise NotEvaluated()
            return T
        t = deref_all(t)
        k = t[0]
        if k == 'const':
            if isinstance(t[1], (int, bool)):
                return t[1]
            raise NotEvaluated()
        if k == 'len' or (k == 'call' and called(t[1], 'slice::len', 'len') and t[2]):
            x = t[1] if k == 'len' else t[2][0]
            if is_arg(x, argn):
                return n
            tl = slice_tail1(x)
            if tl is not None and is_arg(tl, argn) and n >= 1:
                return n - 1
            raise NotEvaluated()
        if k == 'call' and canon(t[1]).endswith(('slice::is_empty',)) and t[2] and is_arg(t[2][0], argn):
            return n == 0
        if k == 'discr' and deref_all(t[1])[0] == 'call':
            c = deref_all(t[1])
            nm = canon(c[1])
            if nm.endswith(('::first', '::split_first')) and c[2] and is_arg(c[2][0], argn):
                return 0 if n == 0 else 1
            if nm.endswith('::get') and len(c[2]) == 2 and is_arg(c[2][0], argn) and deref_all(c[2][1])[0] == 'const' and isinstance(deref_all(c[2][1])[1], int):
                return 1 if deref_all(c[2][1])[1] < n else 0
            raise NotEvaluated()
        if k == 'cast' and t[1] == 'IntToInt':
            x = ev(t[2], T, n)
            bits = _INT_BITS.get(t[3])
            if bits is None or isinstance(x, bool):
                raise NotEvaluated()
            return x & ((1 << bits) - 1)
        if k == 'un' and t[1] == 'Not':
            x = ev(t[2], T, n)
            return (not x) if isinstance(x, bool) else ~x
        if k == 'bin':
            a, c = ev(t[2], T, n), ev(t[3], T, n)
            op = t[1]
            if op in ('Eq', 'Ne', 'Lt', 'Le', 'Gt', 'Ge'):
                return {'Eq': a == c, 'Ne': a != c, 'Lt': a < c, 'Le': a <= c, 'Gt': a > c, 'Ge': a >= c}[op]
            if op in ('BitAnd', 'BitOr', 'BitXor'):
                if isinstance(a, bool) and isinstance(c, bool):
                    return {'BitAnd': a and c, 'BitOr': a or c, 'BitXor': a != c}[op]
                return {'BitAnd': a & c, 'BitOr': a | c, 'BitXor': a ^ c}[op]
            if op in ('Add', 'Sub', 'Mul') and not isinstance(a, bool) and not isinstance(c, bool):
                r = {'Add': a + c, 'Sub': a - c, 'Mul': a * c}[op]
                if r < 0:
                    raise NotEvaluated()     # an underflow: the path panics or wraps, nothing to tabulate
                return r
        if k == 'ovf':
            a, c = ev(t[2], T, n), ev(t[3], T, n)
            r = {'Add': a + c, 'Sub': a - c, 'Mul': a * c}.get(t[1])
            return r is None or r < 0 or r >= (1 << 64)
        raise NotEvaluated()

    def feasible(T, n):
        out = []
        for q in ps:
            ok = True
            for c in q.conds:
                x = ev(c[0], T, n)
                if c[1] == 'eq':
                    h = (x == c[2])
                elif c[1] == 'ne':
                    h = x not in (c[2] if isinstance(c[2], tuple) else (c[2],))
                else:
                    raise NotEvaluated()
                if not h:
                    ok = False
                    break
            if ok:
                out.append(q)
        return out

    return feasible
