"""Evaluation of small predicates over the variants of an enum: `fn is_x(&self) -> bool` written with `matches!`, a `match`, or in
terms of other such predicates (`!self.is_array() && !self.is_object()`)."""
from sym import explore
from pat import deref_all, canon, agg_variant


def _is_self(t):
    t = deref_all(t)
    while t[0] == 'cast':
        t = deref_all(t[2])
    return t[0] == 'init' and t[1] == 1


def enum_pred(f, path, idx, depth=0):
    """Value (bool / int constant) that the one-argument function `path` returns when its argument is variant number `idx` of its enum;
    None when this cannot be evaluated (a condition or result that depends on anything but the discriminant)."""
    b = f.bodies.get(path)
    if b is None or b.argc != 1 or depth > 4:
        return None
    ps, _ = explore(b)

    def val(t):
        t = deref_all(t)
        while t[0] == 'cast' and t[1] == 'IntToInt':
            t = deref_all(t[2])
        if t[0] == 'const':
            return t[1]
        if t[0] == 'discr' and _is_self(t[1]):
            return idx
        if t[0] == 'un' and t[1] == 'Not':
            v = val(t[2])
            return (not v) if isinstance(v, bool) else None
        if t[0] == 'bin' and t[1] in ('Eq', 'Ne', 'BitAnd', 'BitOr'):
            a, c = val(t[2]), val(t[3])
            if a is None or c is None:
                return None
            if t[1] == 'Eq':
                return a == c
            if t[1] == 'Ne':
                return a != c
            if isinstance(a, bool) and isinstance(c, bool):
                return (a and c) if t[1] == 'BitAnd' else (a or c)
            return None
        if agg_variant(t) and t[1][1].split('::')[-1] in ('Option', 'Result'):
            return ('variant', t[1][2])
        if t[0] == 'call' and len(t[2]) == 1 and canon(t[1]).split('::')[-1] in ('is_some', 'is_none', 'is_ok', 'is_err') and canon(t[1]).split('::')[-2:-1] in (['Option'], ['Result']):
            v = val(t[2][0])
            if isinstance(v, tuple) and v[0] == 'variant':
                want = {'is_some': 'Some', 'is_none': 'None', 'is_ok': 'Ok', 'is_err': 'Err'}[canon(t[1]).split('::')[-1]]
                return v[1] == want
            return None
        if t[0] == 'call' and len(t[2]) == 1 and _is_self(t[2][0]):
            cands = [p for p in f.bodies if p == t[1] or canon(p) == canon(t[1])]
            if len(cands) == 1:
                return enum_pred(f, cands[0], idx, depth + 1)
        return None

    out = None
    for q in ps:
        if q.end[0] != 'return':
            return None
        feasible = True
        for c in q.conds:
            v = val(c[0])
            if v is None:
                return None
            if c[1] == 'eq':
                ok = (v == c[2])
            elif c[1] == 'ne':
                ok = v not in (c[2] if isinstance(c[2], tuple) else (c[2],))
            else:
                return None
            if not ok:
                feasible = False
                break
        if not feasible:
            continue
        r = val(q.ret)
        if r is None or (out is not None and out != r):
            return None
        out = r
    return out
