"""R-REC: unbounded input-driven recursion (G1b), reachability of todo!/unimplemented!, left-deep accumulation."""
import re
from mir import Expr, natural_loops, walk, callee_name, render
from sym import Explorer, show, subterms, lin
from pat import called, canon, is_call, deref_all, agg_variant

FORWARDING_TRAITS = {
    'std::clone::Clone': ['clone'],
    'std::cmp::PartialEq': ['eq', 'ne'],
    'std::cmp::PartialOrd': ['partial_cmp'],
    'std::cmp::Ord': ['cmp'],
    'std::fmt::Debug': ['fmt'],
    'std::fmt::Display': ['fmt'],
    'std::hash::Hash': ['hash'],
}


def local_impls(facts):
    """{(trait path, method, adt path): body path} for local trait impl bodies like '<value::Value<'a> as std::clone::Clone>::clone'."""
    out = {}
    for p in facts.bodies:
        m = re.match(r"^<(.+) as ([\w:]+)(?:<.*>)?>::(\w+)$", p)
        if m:
            ty, tr, meth = m.groups()
            adt = re.sub(r'<.*$', '', ty).lstrip('&')
            out[(tr, meth, adt)] = p
    return out


def augment(ctx):
    """Add call-graph edges for std generic containers forwarding a trait method to a local impl
    (Vec<T>::clone -> T::clone, Box<T>: PartialEq -> T::eq, format args -> Display/Debug::fmt)."""
    cg = ctx.cg
    if getattr(cg, '_augmented', False):
        return cg
    facts = ctx.facts
    impls = local_impls(facts)
    adts = set(facts.adts)
    for path, ext in list(cg.ext_calls.items()):
        for name, bb, t in ext:
            c = t['callee']
            full = c.get('full') or ''
            written = c.get('written') or ''
            site = {'bb': bb, 'file': t.get('file'), 'line': t.get('line'), 'kind': 'forward'}
            # trait method on a std container of a local type
            m = re.match(r"^<(.+) as ([\w:]+)(?:<.*>)?>::(\w+)", full)
            cands = []
            if m:
                ty, tr, meth = m.groups()
                for a in adts:
                    if re.search(r'(?<![\w:])' + re.escape(a) + r'(?![\w])', ty):
                        k = (tr, meth, a)
                        if k in impls:
                            cands.append(impls[k])
            # formatting machinery: Argument::new_display::<T> / new_debug::<T>
            if 'Argument' in written and ('new_display' in written or 'new_debug' in written):
                tr = 'std::fmt::Display' if 'new_display' in written else 'std::fmt::Debug'
                for ta in c.get('targs', []):
                    s = ta.get('s', '')
                    for a in adts:
                        if re.search(r'(?<![\w:])' + re.escape(a) + r'(?![\w])', s):
                            k = (tr, 'fmt', a)
                            if k in impls:
                                cands.append(impls[k])
            # ToString::to_string on a local Display type
            if written.endswith('ToString::to_string') or written.endswith('to_string'):
                for ta in c.get('targs', []):
                    s = ta.get('s', '')
                    for a in adts:
                        if re.search(r'(?<![\w:])' + re.escape(a) + r'(?![\w])', s):
                            k = ('std::fmt::Display', 'fmt', a)
                            if k in impls:
                                cands.append(impls[k])
            for tgt in cands:
                cg._add(path, tgt, site)
    cg._augmented = True
    return cg


def panic_kind(t):
    """'todo' | 'unimplemented' | 'unreachable' | 'panic' | 'assert' | None for a call terminator."""
    n = callee_name(t)
    if 'core::panicking::' not in n and 'std::rt::begin_panic' not in n and 'core::option::expect_failed' not in n and 'unwrap_failed' not in n:
        return None
    macs = t.get('macs', [])
    msgs = [a.get('str') for a in t['args'] if a['k'] == 'const' and a.get('str')]
    if 'todo' in macs or any(m and m.startswith('not yet implemented') for m in msgs):
        return 'todo'
    if 'unimplemented' in macs or any(m and m.startswith('not implemented') for m in msgs):
        return 'unimplemented'
    if 'unreachable' in macs or any(m and 'unreachable code' in m for m in msgs):
        return 'unreachable'
    if any('assert' in m for m in macs) or 'assert_failed' in n or any(m and m.startswith('assertion failed') for m in msgs):
        return 'assert'
    return 'panic'


def no_todo(ctx, run, rule, roots, floor_roots=None):
    """No todo!()/unimplemented!() reachable from the roots (R08.1)."""
    cg = augment(ctx)
    f = ctx.facts
    roots = [r for r in roots if r in f.bodies]
    if floor_roots is not None:
        run.floor(rule, 'evaluator entry points', len(roots), floor_roots)
    cone = cg.reachable(roots)
    n = 0
    for p in sorted(cone):
        b = f.bodies[p]
        for bb, t in b.calls():
            k = panic_kind(t)
            if k in ('todo', 'unimplemented'):
                n += 1
                chain = cg.path_to(roots, p) or [p]
                run.violation(rule, p, f'{k}!()', f'{k}!() is reachable from {chain[0]} via {" -> ".join(x.split("::")[-1] for x in chain)}: the evaluator panics instead of returning an error',
                              f"{t.get('file')}:{t.get('line')}")
    run.proved(rule, '<cone>', 'no todo!/unimplemented!', f'{len(cone)} functions reachable from {len(roots)} entry points contain no todo!()/unimplemented!()') if n == 0 else None
    run.count('cone_functions', len(cone))
    return cone


# ------------------------------------------------------------------ R-REC

def int_param_positions(body):
    out = []
    for i in range(1, body.argc + 1):
        ty = body.local_ty(i)
        if ty.get('k') == 'int':
            out.append(i)
    return out


def has_depth_guard(facts, cg, scc):
    """Some integer parameter strictly grows along every recursive edge inside the SCC and is compared with a
    constant in the function (classic depth limit), or a struct field is incremented around the call and compared."""
    for p in scc:
        b = facts.bodies[p]
        ex = Explorer(b, max_paths=1500)
        paths = ex.explore()
        guard_params = set()
        for q in paths:
            for c in q.conds:
                t = c[0]
                if t[0] == 'bin' and t[1] in ('Lt', 'Le', 'Gt', 'Ge'):
                    for side, other in ((t[2], t[3]), (t[3], t[2])):
                        if other[0] == 'const' and isinstance(other[1], int):
                            for s in subterms(side):
                                if s[0] == 'init' and s[1] <= b.argc:
                                    guard_params.add(s[1])
                                if s[0] == 'field' and 'depth' in str(s[2]).lower():
                                    guard_params.add(('field', s[2]))
        if not guard_params:
            continue
        # does a recursive call pass param + positive constant?
        for q in paths:
            for e in q.calls():
                tgt = None
                c = e[5]['callee']
                r = c.get('resolved') if c.get('resolved_local') else (c.get('written') if c.get('local') else None)
                if r in scc:
                    for a in e[2]:
                        l = lin(a)
                        for atom, k in l[0].items():
                            if atom[0] == 'init' and atom[1] in guard_params and k == 1 and l[1] > 0:
                                return True
    return False


def classify_scc(facts, scc):
    mods = {p.split('::')[0] if not p.startswith('<') else re.sub(r'^<&?', '', p).split('::')[0] for p in scc}
    joined = ' '.join(sorted(scc))
    if 'jsonpath::parser' in joined:
        return 'path-text'
    if 'jsonpath::selector' in joined:
        return 'path-expr'
    if 'jsonpath::path' in joined:
        return 'path-ast'
    if 'keypath' in joined and 'functions::' not in joined:
        return 'keypath'
    return 'document'


def redispatch_only(facts, cg, scc):
    """A self-recursive public function whose every recursive call sits under `!is_jsonb(param)` and passes, in that
    position, a freshly encoded buffer (Value::to_vec / write_to_vec output): depth is bounded by the number of
    document parameters, not by the input."""
    if len(scc) != 1:
        return False
    p = next(iter(scc))
    b = facts.bodies[p]
    ex = Explorer(b, max_paths=3000)
    paths = ex.explore()
    found = False
    for q in paths:
        for e in q.calls():
            c = e[5]['callee']
            r = c.get('resolved') if c.get('resolved_local') else (c.get('written') if c.get('local') else None)
            if r != p:
                continue
            found = True
            # conditions before the call must include is_jsonb(param_k) == false for some k, and arg k must be an encoded buffer
            ci = e[6]
            neg = []
            for cnd in q.conds[:ci]:
                t = cnd[0]
                if is_call(t, 'functions::is_jsonb') and cnd[2] is False:
                    a = deref_all(t[2][0])
                    if a[0] == 'init':
                        neg.append(a[1])
            ok = False
            for k in neg:
                arg = deref_all(e[2][k - 1]) if k - 1 < len(e[2]) else None
                if arg is None:
                    continue
                s = show(arg)
                if any(is_call(x, 'Value::to_vec', 'Deref::deref', 'Vec::as_slice') or x[0] in ('post',) for x in subterms(arg)) and not (arg[0] == 'init'):
                    ok = True
            if not ok:
                return False
    return found


def rrec(ctx, run, rule, roots, kinds, what, floor=None):
    """Every SCC of the wanted kinds reachable from the roots must carry a depth guard."""
    cg = augment(ctx)
    f = ctx.facts
    roots = [r for r in roots if r in f.bodies]
    cone = cg.reachable(roots)
    sccs = cg.sccs(cone)
    n = 0
    for scc in sccs:
        kind = classify_scc(f, scc)
        if kind not in kinds:
            continue
        members = sorted(x for x in scc)
        desc = 'scc{' + ','.join(short_name(m) for m in members) + '}'
        first = f.bodies[members[0]]
        if redispatch_only(f, cg, scc):
            run.proved(rule, members[0], desc, 'self-call only re-dispatches on a freshly encoded buffer under !is_jsonb(param): depth bounded by the number of document parameters', f'{first.file}:{first.line}')
            continue
        n += 1
        if has_depth_guard(f, cg, scc):
            run.proved(rule, members[0], desc, 'a depth counter grows along every recursive edge and is compared with a constant', f'{first.file}:{first.line}')
            continue
        # witness: one cycle with call sites
        cyc = cycle_witness(cg, scc)
        run.violation(rule, members[0], desc,
                      f'{what}: the functions {", ".join(short_name(m) for m in members)} call each other once per nesting level with no depth bound, '
                      f'so stack use grows with the input and a deep enough input aborts the process; cycle: {cyc}',
                      f'{first.file}:{first.line}', witness={'members': members, 'cycle': cyc})
    if floor is not None:
        run.floor(rule, f'recursive SCCs ({"/".join(sorted(kinds))}) in the cone', n, floor)
    run.count('sccs_examined', len(sccs))
    return n


def short_name(p):
    p = re.sub(r"<'[a-z_]+>", '', p)
    p = p.replace('::::', '::')
    m = re.match(r'^<(.+) as ([\w:]+)(?:<.*>)?>::(\w+)$', p)
    if m:
        ty = re.sub(r'<.*$', '', m.group(1)).split('::')[-1]
        return f"{ty}:{m.group(2).split('::')[-1]}::{m.group(3)}"
    parts = p.split('::')
    return '::'.join(parts[-2:]) if len(parts) > 1 else p


def cycle_witness(cg, scc):
    start = sorted(scc)[0]
    # DFS for a cycle back to start
    stack = [(start, [start])]
    seen = set()
    while stack:
        x, path = stack.pop()
        for y, sites in cg.edges.get(x, {}).items():
            if y not in scc:
                continue
            s = sites[0]
            if y == start:
                return ' -> '.join(short_name(p) for p in path + [y]) + f" (call at {s.get('file')}:{s.get('line')})"
            if y not in seen:
                seen.add(y)
                stack.append((y, path + [y]))
    return short_name(start)


# ------------------------------------------------------------------ R09.10 left-deep accumulation

def left_deep(ctx, run, rule, fn_prefixes, floor=None):
    """In a loop, a local of a recursive ADT is moved into a Box inside a new node of the same type that is assigned
    back to the same local: depth grows with the iteration count although nothing recurses here."""
    f = ctx.facts
    n = 0
    for p, b in sorted(f.bodies.items()):
        if b.kind == 'Promoted' or not any(p.startswith(x) for x in fn_prefixes):
            continue
        loops = natural_loops(b)
        if not loops:
            continue
        inloop = set().union(*loops.values())
        ex = Expr(b, expand_named=False)
        for bb, i, s in b.all_stmts():
            if bb not in inloop or s['k'] != 'assign' or s['place'].get('proj'):
                continue
            rv = s['rv']
            L = s['place']['local']
            # `x = move tmp` where tmp is the freshly built node
            if rv['k'] == 'use' and rv['op']['k'] == 'move' and not rv['op']['place'].get('proj'):
                from mir import single_def
                sd = single_def(b, rv['op']['place']['local'])
                if sd is not None and sd[0] == 'stmt' and sd[3]['k'] == 'agg':
                    rv = sd[3]
            if rv['k'] != 'agg' or rv.get('agg') != 'adt':
                continue
            lty = b.local_ty(L)
            if lty.get('path') != rv['adt'] or b.name_of(L) is None:
                continue
            t = ex.rvalue(rv)
            hit = False
            for sub in walk(t):
                if sub[0] == 'call' and sub[1].endswith('Box::<T>::new') or (sub[0] == 'call' and 'boxed::Box' in sub[1] and sub[1].endswith('::new')):
                    for x in walk(sub):
                        if x[0] in ('var', 'arg') and x[1] == L:
                            hit = True
            if hit:
                n += 1
                run.violation(rule, p, f'left-deep[{b.name_of(L) or L}:{rv["adt"].split("::")[-1]}]',
                              f'inside a loop `{b.name_of(L) or L} = {rv["adt"].split("::")[-1]}::{rv["vname"]}{{ Box::new({b.name_of(L) or L}), .. }}` builds a tree whose depth equals the number of '
                              f'iterations (one per `&&`/`||` clause of the input); derived Clone/Drop/Display and the evaluator then recurse that deep',
                              f"{s.get('file')}:{s.get('line')}")
    if floor is not None:
        run.floor(rule, 'left-deep accumulation sites', n, floor)
    return n


# ------------------------------------------------------------------ R20.6 a depth counter is released on the way out

def _counter_updates(body):
    """[(block, key, op, line)] for statements `P = P + c` / `P = P - c` (c a positive constant) where P is a field reached through a
    reference (state that outlives the call); key = (base local, field name/index)."""
    out = []
    tmp = {}     # local -> (key, op): checked arithmetic result tuples
    def place_key(pl):
        pr = pl.get('proj') or []
        if len(pr) >= 2 and pr[0].get('k') == 'deref' and pr[-1].get('k') == 'field' and all(x.get('k') in ('deref', 'field') for x in pr):
            return (pl['local'], tuple((x.get('name') or x.get('i')) for x in pr if x.get('k') == 'field'))
        return None
    for bb, i, s in body.all_stmts():
        if s['k'] != 'assign':
            continue
        rv = s['rv']
        if rv.get('k') == 'bin' and rv.get('op') in ('Add', 'Sub') and rv['b'].get('k') == 'const' and isinstance(rv['b'].get('val'), int) and rv['b']['val'] > 0 \
                and rv['a'].get('k') in ('copy', 'move') and place_key(rv['a']['place']) is not None:
            k = place_key(rv['a']['place'])
            dst = s['place']
            if place_key(dst) == k:
                out.append((bb, k, rv['op'], s.get('line')))
            elif not dst.get('proj'):
                tmp[dst['local']] = (k, rv['op'])
        elif rv.get('k') == 'use' and rv['op'].get('k') in ('copy', 'move'):
            src = rv['op']['place']
            if src['local'] in tmp and place_key(s['place']) == tmp[src['local']][0]:
                out.append((bb, tmp[src['local']][0], tmp[src['local']][1], s.get('line')))
    return out


def depth_counter_pairing(ctx, run, rule, only=None):
    """Pairing rule for depth limits kept in a field (`self.depth += 1; if self.depth > MAX { return Err }; recurse`): in a function of a
    recursive cycle, a counter that is incremented on the way into the recursion must be decremented again on every path that returns
    normally after it — otherwise it counts the containers visited so far, not the nesting depth, and a wide but shallow document is
    rejected.  No such counter exists on the pinned tree (0 instances, proved vacuously); the rule speaks when one is added."""
    cg = augment(ctx)
    f = ctx.facts
    allp = [p for p in f.bodies if f.bodies[p].kind != 'Promoted' and (only is None or only(p))]
    sccs = cg.sccs(set(f.bodies))
    rec = set()
    for scc in sccs:
        if len(scc) > 1 or any(p in cg.edges.get(p, ()) for p in scc):
            rec |= set(scc)
    n = 0
    for p in sorted(allp):
        if p not in rec:
            continue
        b = f.bodies[p]
        ups = _counter_updates(b)
        incs = [u for u in ups if u[2] == 'Add']
        if not incs:
            continue
        scc = next(s for s in sccs if p in s)
        for key in sorted({u[1] for u in incs}, key=str):
            # is the counter compared with a constant (a limit) somewhere in the cycle?  otherwise it is a cursor / length, not a depth guard
            limited = False
            name = str(key[1][-1])
            for m in scc:
                mb = f.bodies[m]
                for q in Explorer(mb, max_paths=1500).explore():
                    for c in q.conds:
                        t = c[0]
                        if t[0] == 'bin' and t[1] in ('Lt', 'Le', 'Gt', 'Ge') and any(x[0] == 'const' and isinstance(x[1], int) for x in (t[2], t[3])) \
                                and any(s_[0] == 'field' and str(s_[2]) == name for s_ in subterms(t)):
                            limited = True
                    if limited:
                        break
                if limited:
                    break
            if not limited:
                continue
            n += 1
            desc = f'counter[{name}]'
            loc = f'{b.file}:{[u[3] for u in incs if u[1] == key][0] or b.line}'
            decs_anywhere = [(m, u) for m in scc for u in _counter_updates(f.bodies[m]) if u[2] == 'Sub' and u[1][1] == key[1]]
            if not decs_anywhere:
                run.violation(rule, p, desc, f'`{name}` is incremented on the way into the recursion and compared with a limit, but never decremented in the cycle '
                              f'{{{", ".join(short_name(m) for m in sorted(scc))}}}: it counts the containers visited so far, not the nesting depth, so a shallow document with more '
                              'containers than the limit is rejected', loc)
                continue
            inc_blocks = {u[0] for u in incs if u[1] == key}
            dec_blocks = {u[0] for u in _counter_updates(b) if u[2] == 'Sub' and u[1] == key}
            if not dec_blocks:
                run.undecided(rule, p, desc, f'`{name}` is incremented here and decremented in another function of the cycle: the pairing is not followed across functions', loc)
                continue
            bad = False
            for q in Explorer(b, max_paths=3000).explore():
                if q.end[0] != 'return' or q.ret is None:
                    continue
                r = deref_all(q.ret)
                err = (agg_variant(r) and r[1][2] in ('Err', 'None')) or is_call(r, 'FromResidual::from_residual')
                blocks = set(q.blocks)
                if blocks & inc_blocks and not err and not (blocks & dec_blocks):
                    bad = True
            if bad:
                run.violation(rule, p, desc, f'on some path that returns normally `{name}` is incremented but not decremented again: it drifts upwards with every container visited', loc)
            else:
                run.proved(rule, p, desc, f'`{name}` incremented on the way in and decremented on every normal return', loc)
    if n == 0:
        run.proved(rule, 'crate', 'depth-counters', 'no field counter with a limit is incremented in a recursive cycle (nothing to pair on this tree)', nontrivial=False)
    return n
